#!/bin/bash
# runall.sh <seed> <logfile> : setup + every quick check on /repo
cd /verif; export VERIF_SEED=$1
( time bin/vcheck --setup ) 2>&1 | tail -4
for c in C01 C02 C03 C04 C05 C06 C07 C08 C09 C10 C11 C12 C13 C14 C15 C16 C17 C18 C19 C20; do
  bin/vcheck $c --tier quick 2>&1 | grep -E "^VIOLATION|^  key=|tier=|INCONCLUSIVE|HARNESS|rror" | cut -c1-300 | head -20; echo "--- $c rc=${PIPESTATUS[0]}"
done
