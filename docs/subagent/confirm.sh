#!/bin/bash
# confirm.sh Sxx "extra demo flags" utest1 utest2 ... : demo with/without patch + unit tests with patch
S=$1; XF=$2; shift 2
WT=/tmp/wt/$S; OUT=/tmp/wt/$S.out; B=/tmp/wt/$S.build; mkdir -p $B
git -C $WT diff --stat | tail -3
git -C $WT diff > $B/wt.diff; cmp -s $B/wt.diff $OUT/patch.diff && echo "patch.diff == worktree diff" || echo "NOTE patch.diff differs from worktree diff"
FL="-std=c++17 -O2 -g -fopenmp -DTBF_USE_OPENMP -DTBF_USE_FFTW $XF"
( g++ $FL -I/repo/src $OUT/demo.cpp -o $B/demo_orig -lfftw3 -lfftw3f 2>$B/demo_orig.err || echo "demo_orig COMPILE FAIL" ) &
( g++ $FL -I$WT/src $OUT/demo.cpp -o $B/demo_mut -lfftw3 -lfftw3f 2>$B/demo_mut.err || echo "demo_mut COMPILE FAIL" ) &
for t in "$@"; do
 ( g++ -std=c++17 -O2 -g -DNDEBUG -fopenmp -DTBF_USE_OPENMP -DTBF_USE_FFTW -march=native -I$WT/src -I$WT/unit-tests $WT/unit-tests/utest-$t.cpp -o $B/utest-$t -lfftw3 -lfftw3f 2>$B/utest-$t.err || echo "utest-$t COMPILE FAIL" ) &
done
wait
( cd $B; timeout 600 ./demo_orig > demo_orig.out 2>&1; echo "demo on unchanged: exit $?"; timeout 600 ./demo_mut > demo_mut.out 2>&1; echo "demo on changed: exit $?"; tail -3 demo_mut.out | cut -c1-200 )
for t in "$@"; do ( cd $B; timeout 900 ./utest-$t > utest-$t.out 2>&1; echo "utest-$t with change: exit $?" ); done
