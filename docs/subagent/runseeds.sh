#!/bin/bash
cd /verif
for sd in "$@"; do
  export VERIF_SEED=$sd
  for c in C01 C02 C03 C04 C05 C06 C07 C08 C09 C10 C11 C12 C13 C14 C15 C16 C17 C18 C19 C20; do
    VERIF_EVIDENCE_DIR=/verif/.cache/soak-evidence VERIF_REPLAY_DIR=/verif/.cache/soak-replays-$sd bin/vcheck $c --tier quick 2>&1 | grep -E "^VIOLATION|^  key=|tier=|INCONCLUSIVE|HARNESS|rror" | cut -c1-300 | head -20; echo "--- seed $sd $c rc=${PIPESTATUS[0]}"
  done
done
