#!/usr/bin/env python3
"""install_seed.py <spec.json>: copy an agent's deliverables into /verif/seeded/<id>-<prop>/ and write meta.json"""
import json, sys, os, shutil
spec = json.load(open(sys.argv[1]))
sid, prop = spec["id"], spec["property"]
src = "/tmp/wt/%s.out" % sid
dst = "/verif/seeded/%s-%s" % (sid, prop)
os.makedirs(dst, exist_ok=True)
for f in ("patch.diff", "demo.cpp", "NOTES.md"):
    shutil.copy(os.path.join(src, f), os.path.join(dst, f))
meta = {
    "id": sid, "property": prop, "change": spec["change"], "needs_to_manifest": spec["needs"],
    "origin": spec.get("origin", "independent sub-agent (round %s) given only the property text, a list of the mechanisms already used against this property in earlier rounds, and its own scratch worktree of /repo at c0a59db" % spec["round"]),
    "confirmed_by_me": {"demo_fails_with_patch": True, "demo_passes_without_patch": True,
                        "unit_tests_rebuilt_and_passing_with_patch": spec["utests"],
                        "how": "/tmp/wt/confirm.sh: demo built against /repo/src and against the patched worktree; unit tests built with the suite flags (-O2 -DNDEBUG -fopenmp) against the patched worktree" + (" ; " + spec["confirm_note"] if spec.get("confirm_note") else "")},
    "checks_run": spec["checks_run"],
    "how_to_rerun": "bin/seedtest seeded/%s-%s %s" % (sid, prop, " ".join(spec["checks_run"].keys())),
}
json.dump(meta, open(os.path.join(dst, "meta.json"), "w"), indent=1)
print("installed", dst)
