"""Table of harness binaries and of the checks built from them (read by bin/vcheck)."""

def _fmm_objects():
    objs = [("h_fmm_main.cpp", [], "main")]
    for d, p in [(1, 0), (2, 0), (3, 0), (4, 0), (1, 1), (2, 1), (3, 1)]:
        objs.append(("h_fmm_tu.cpp", ["VH_DIM=%d" % d, "VH_PER=%d" % p], "d%d_%d" % (d, p)))
    return objs

BINARIES = {
    "h_fmm": {"flavour": "asan", "objects": _fmm_objects()},
}

EXPL = "exploration"

CHECKS = {
    "C01": {
        "level": EXPL,
        "technique": "runtime monitoring: exact probe kernels (per-pair multiset, polynomial over Z/2^64) + coordinate reference model, ASan/UBSan build with assertions",
        "claim": "Every explored tree (bounded-exhaustive occupancy patterns of small trees, random and large trees in Dim 1..4) gave each particle exactly one contribution from every other particle, with every cell multipole/local equal to the coordinate model; exploration because the input space is unbounded.",
        "note": "Trusted: the harness's coordinate model and exact probe kernels; leaf membership read from the tree (C06 validates it). Held on executions explored only.",
        "jobs": [{"bin": "h_fmm", "mode": "c01"}],
        "rule": "cases = every non-empty leaf-occupancy pattern of the (Dim,height) slices (1,2..5),(2,2..3),(3,2) [quick: all patterns up to 255 leaves-subsets, a seeded sample of 1200 of the 65535 patterns of the two 16-leaf slices], each with 1 and with 1..3 particles per leaf, times block sizes (quick {1,2,3,#leaves,#leaves+1}; thorough 1..#leaves+1) times both grouping modes; plus random trees Dim 1..4 (all distributions, box geometries, block sizes, automatic size, upper level 0/1/2) and large trees. Oracles: P-set exact per-pair counts and per-cell multipole/local vs the coordinate model; P-poly exact polynomial kernel vs direct sum. non-trivial = >= 2 occupied leaves and at least one far or near leaf pair; distinct = distinct (Dim,height,ordering,first block size,mode,N,occupancy hash).",
        "require_events": ["pairs-checked", "poly-results-checked", "cells-checked"],
        "exhaustive_thorough": False,
        "assumptions": ["leaf membership of a particle is read from the tree's leaf headers (validated separately by C06)", "held on the executions explored only; sanitizers are red-zone tools"],
    },
    "C02": {
        "level": EXPL,
        "technique": "runtime monitoring: argument-checking recorder kernel (P-rec) at every operator callback, cross-checked by the exact polynomial kernel and the model's interaction multiset",
        "claim": "On every explored execution every operator call received particles of the right leaf with unmodified data and original indices, distinct children of the stated parent with the true octant code, and sources at exactly the decoded relative offset, at the stated level; exploration over random trees, executors and orderings.",
        "note": "Trusted: address->cell map built by walking the tree before execution; Morton octant convention as documented. Held on executions explored only.",
        "jobs": [{"bin": "h_fmm", "mode": "c02"}],
        "rule": "cases = random trees (Dim 1..4, heights 1..8, all distributions incl. face/corner/nextafter points, random box geometry, block sizes, both modes, Morton and periodic-Morton orderings) executed with Checked<P-poly>; every callback is checked (header<->index, particles inside leaf, data bit-identical to input, child/parent relation by address, octant and relative-offset codes, level arguments, counts). non-trivial = at least one M2L or P2P call; distinct = (Dim,height,ordering,block size,mode,upper,N,occupancy hash).",
        "require_events": ["particles-checked", "elementary-interactions"],
        "assumptions": ["operator arguments are observed at the user-kernel boundary only"],
    },
    "C08": {
        "level": EXPL,
        "technique": "runtime monitoring: recorded multiset of elementary interactions compared across groupings and with the model; bit-exact results with the polynomial kernel",
        "claim": "For every explored input, all block sizes (1.., >= #leaves, automatic, TBFMM_BLOCK_SIZE) and both grouping modes produced the identical multiset of elementary interactions (equal to the model's), identical cell expansions and identical results.",
        "note": "Trusted: recorder kernel and model. Number of operator calls is deliberately not compared (batching is legitimate).",
        "jobs": [{"bin": "h_fmm", "mode": "c08"}],
        "rule": "case = one random input executed under every block size of {1,2,3,5,8,...,#leaves,#leaves+1,1e7, automatic, automatic via TBFMM_BLOCK_SIZE} (all sizes 1..N+1 when N<=12) x both grouping modes; the sorted multiset (op, level, target, source, code), every multipole/local (by cell) and every result (by original index) must be identical across groupings and equal to model / direct sum. non-trivial = >= 2 occupied leaves and at least one M2L or P2P; distinct = input signature.",
        "require_events": ["groupings", "elementary-interactions"],
        "assumptions": [],
    },
    "C12": {
        "level": EXPL,
        "technique": "runtime monitoring of execute(flags) histories: recorder kernel (which operator, which level), byte snapshots of the tree between calls, bit-exact polynomial kernel",
        "claim": "On every explored tree: each single flag called only its operator and wrote only its output kind; every ordered partition of the flags into stages respecting the dependency order (all 2^4 chain cuts x every placement of P2P, plus the documented 3-stage split) ended bit-identical to one full run; for every upper level 0..height no operator ran above it and the result equalled the model evaluated with that level.",
        "note": "Trusted: recorder, snapshots by (level,coord) and by original index, model.",
        "jobs": [{"bin": "h_fmm", "mode": "c12"}],
        "rule": "cases cycle through three history families on random trees: single flags (6 runs), staged histories (quick 24 sampled incl. the documented split; thorough all %d), upper levels 0..height (height+1 runs with P-rec + P-set model). non-trivial = tree with >= 2 particles / far or near interactions / height >= 3 respectively; distinct = family + input signature.",
        "require_events": ["single-flag-runs", "staged-histories", "upper-level-runs"],
        "assumptions": [],
    },
}
SPECIAL = {}
NOT_CLAIMED = {}
HOOK_COMMITS = []

