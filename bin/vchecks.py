"""Table of harness binaries and of the checks built from them (read by bin/vcheck)."""

def _fmm_objects():
    objs = [("h_fmm_main.cpp", [], "main")]
    for d, p in [(1, 0), (2, 0), (3, 0), (4, 0), (1, 1), (2, 1), (3, 1)]:
        objs.append(("h_fmm_tu.cpp", ["VH_DIM=%d" % d, "VH_PER=%d" % p], "d%d_%d" % (d, p)))
    return objs

BINARIES = {
    "h_fmm": {"flavour": "asan", "objects": _fmm_objects()},
}

EXPL = "exploration"

CHECKS = {
    "C01": {
        "level": EXPL,
        "technique": "runtime monitoring: exact probe kernels (per-pair multiset, polynomial over Z/2^64) + coordinate reference model, ASan/UBSan build with assertions",
        "claim": "Every explored tree (bounded-exhaustive occupancy patterns of small trees, random and large trees in Dim 1..4) gave each particle exactly one contribution from every other particle, with every cell multipole/local equal to the coordinate model; exploration because the input space is unbounded.",
        "note": "Trusted: the harness's coordinate model and exact probe kernels; leaf membership read from the tree (C06 validates it). Held on executions explored only.",
        "jobs": [{"bin": "h_fmm", "mode": "c01"}],
        "rule": "cases = every non-empty leaf-occupancy pattern of the (Dim,height) slices (1,2..5),(2,2..3),(3,2) [quick: all patterns up to 255 leaves-subsets, a seeded sample of 1200 of the 65535 patterns of the two 16-leaf slices], each with 1 and with 1..3 particles per leaf, times block sizes (quick {1,2,3,#leaves,#leaves+1}; thorough 1..#leaves+1) times both grouping modes; plus random trees Dim 1..4 (all distributions, box geometries, block sizes, automatic size, upper level 0/1/2) and large trees. Oracles: P-set exact per-pair counts and per-cell multipole/local vs the coordinate model; P-poly exact polynomial kernel vs direct sum. non-trivial = >= 2 occupied leaves and at least one far or near leaf pair; distinct = distinct (Dim,height,ordering,first block size,mode,N,occupancy hash).",
        "require_events": ["pairs-checked", "poly-results-checked", "cells-checked"],
        "exhaustive_thorough": False,
        "assumptions": ["leaf membership of a particle is read from the tree's leaf headers (validated separately by C06)", "held on the executions explored only; sanitizers are red-zone tools"],
    },
}
SPECIAL = {}
NOT_CLAIMED = {}
HOOK_COMMITS = []

