"""Table of harness binaries and of the checks built from them (read by bin/vcheck)."""

def _fmm_objects():
    objs = [("h_fmm_main.cpp", [], "main")]
    for d, p in [(1, 0), (2, 0), (3, 0), (4, 0), (1, 1), (2, 1), (3, 1)]:
        objs.append(("h_fmm_tu.cpp", ["VH_DIM=%d" % d, "VH_PER=%d" % p], "d%d_%d" % (d, p)))
    objs.append(("h_fmm_tu.cpp", ["VH_DIM=3", "VH_HILBERT=1"], "hilbert"))
    return objs

def _tree_objects():
    return [("h_tree_main.cpp", [], "main")] + [("h_tree_tu.cpp", ["VH_FL=%d" % f], "f%d" % f) for f in range(1, 12)]

def _sched_objects(tsan):
    objs = [("h_sched_main.cpp", [], "main"), ("rt/sched.cpp", [], "sched")]
    for d, p in [(1, 0), (2, 0), (3, 0), (3, 1)]:
        objs.append(("h_sched_tu.cpp", ["VH_DIM=%d" % d, "VH_PER=%d" % p, "VH_TSAN=%d" % tsan], "d%d_%d" % (d, p)))
    return objs

def _omp_objects():
    objs = [("h_omp_main.cpp", [], "main")]
    for d, p in [(1, 0), (2, 0), (3, 0), (3, 1)]:
        objs.append(("h_omp_tu.cpp", ["VH_DIM=%d" % d, "VH_PER=%d" % p], "d%d_%d" % (d, p)))
    return objs

def _index_objects():
    objs = [("h_index_main.cpp", [], "main")]
    for k, d, p in [(0,1,0),(0,2,0),(0,3,0),(0,4,0),(0,1,1),(0,2,1),(0,3,1),(0,4,1),(1,3,0)]:
        objs.append(("h_index_tu.cpp", ["VH_KIND=%d" % k, "VH_DIM=%d" % d, "VH_PER=%d" % p], "k%d_%d_%d" % (k, d, p)))
    return objs

def _num_objects():
    objs = [("h_num_main.cpp", [], "main"), ("rt/sched.cpp", [], "sched"), ("h_num_p2p.cpp", [], "p2p")]
    for pp, f in [(4,0),(6,0),(8,0),(12,0),(4,1),(8,1)]: objs.append(("h_num_rot.cpp", ["VH_P=%d" % pp, "VH_REALF=%d" % f], "rot%d_%d" % (pp, f)))
    for o, f in [(3,0),(4,0),(5,0),(6,0),(7,0),(8,0),(3,1),(5,1)]: objs.append(("h_num_unif.cpp", ["VH_ORDER=%d" % o, "VH_REALF=%d" % f], "unif%d_%d" % (o, f)))
    return objs

VALGRIND = ["valgrind", "--tool=memcheck", "--error-exitcode=92", "--track-origins=yes", "--leak-check=full", "--errors-for-leak-kinds=definite", "-q"]

def _specx_objects(tsan):
    return [("h_specx_main.cpp", [], "main"), ("rt/sched.cpp", [], "sched")] + [("h_specx_tu.cpp", ["VH_DIM=%d" % d, "VH_TSAN=%d" % tsan], "d%d" % d) for d in (2, 3)]

def _starpu_objects(tsan):
    return [("h_starpu_main.cpp", [], "main"), ("rt/sched.cpp", [], "sched")] + [("h_starpu_tu.cpp", ["VH_DIM=%d" % d, "VH_TSAN=%d" % tsan], "d%d" % d) for d in (2, 3)]
_MOCK = __import__("os").path.join(__import__("os").path.dirname(__import__("os").path.dirname(__import__("os").path.abspath(__file__))), "harness", "mock")

BINARIES = {
    "h_starpu": {"flavour": "asan", "objects": _starpu_objects(0), "cflags": ["-fopenmp", "-I" + _MOCK + "/starpu"], "ldflags": ["-lpthread"],
                 "about": "StarPU executors (plain and target/source) compiled against a mock of the StarPU C API implemented on the harness scheduler (our reading of the documented contract, not the runtime)"},
    "h_starpu_tsan": {"flavour": "tsan", "objects": _starpu_objects(1), "cflags": ["-fopenmp", "-I" + _MOCK + "/starpu"], "ldflags": ["-lpthread"], "about": "same under ThreadSanitizer with wave policies"},
    "h_specx": {"flavour": "asan", "objects": _specx_objects(0), "cflags": ["-fopenmp", "-I" + __import__("os").path.join(__import__("os").path.dirname(__import__("os").path.dirname(__import__("os").path.abspath(__file__))), "harness", "mock", "specx")], "ldflags": ["-lpthread"],
                "about": "Specx executors (plain and target/source) compiled against a mock of the Specx API implemented on the harness scheduler (our reading of the documented contract, not the runtime)"},
    "h_specx_tsan": {"flavour": "tsan", "objects": _specx_objects(1), "cflags": ["-fopenmp", "-I" + __import__("os").path.join(__import__("os").path.dirname(__import__("os").path.dirname(__import__("os").path.abspath(__file__))), "harness", "mock", "specx")], "ldflags": ["-lpthread"],
                "about": "same under ThreadSanitizer with wave policies"},
    "h_mc": {"flavour": "memcheck", "objects": [("h_fmm_main.cpp", ["VH_MC=1"], "main"), ("h_fmm_tu.cpp", ["VH_DIM=3", "VH_PER=0"], "d3_0"), ("h_fmm_tu.cpp", ["VH_DIM=3", "VH_PER=1"], "d3_1")],
             "about": "Dim-3 slices of h_fmm built without sanitizers and without pattern-initialised locals, run under valgrind memcheck (uninitialised-value use)"},
    "h_num": {"flavour": "plain", "objects": _num_objects(), "cflags": ["-fopenmp"], "ldflags": ["-lpthread", "-lfftw3", "-lfftw3f"], "about": "rotation / uniform kernels and direct P2P routines against long double references (assertions on, -O2)"},
    "h_num_asan": {"flavour": "asan", "objects": _num_objects(), "cflags": ["-fopenmp"], "ldflags": ["-lpthread", "-lfftw3", "-lfftw3f"], "about": "(ASan+UBSan+LSan build: memory safety of the real kernels; error bounds are not judged in this build) rotation / uniform kernels and direct P2P routines against long double references (assertions on, -O2)"},
    "h_num_tsan": {"flavour": "tsan", "objects": _num_objects(), "cflags": ["-fopenmp"], "ldflags": ["-lpthread", "-lfftw3", "-lfftw3f"], "about": "(ThreadSanitizer build, VH_FORCE_WAVE: the real kernels inside the OpenMP executor with unordered tasks released together on real threads) rotation / uniform kernels and direct P2P routines against long double references (assertions on, -O2)"},
    "h_mem": {"flavour": "asan", "objects": [("h_mem.cpp", [], "main")], "about": "TbfMemoryBlock layouts + byte-copied views of cell/particle groups with operators run on the views; viewer bounds hook H1"},
    "h_index": {"flavour": "asan", "objects": _index_objects(), "about": "public index API of Morton (Dim 1..4, periodic or not) and Hilbert (Dim 3) orderings against the coordinate model"},
    "h_sched": {"flavour": "asan", "objects": _sched_objects(0), "cflags": ["-fopenmp"], "ldflags": ["-lpthread"], "about": "OpenMP executors (plain and target/source) linked against the scheduler shim instead of libgomp; hostile schedules; O-dag, O-seq, P-rec; ASan+UBSan"},
    "h_omp": {"flavour": "asan", "objects": _omp_objects(), "cflags": ["-fopenmp"], "ldflags": ["-fopenmp", "-lpthread"], "about": "OpenMP executors on the real libgomp runtime, 1..16 threads: P-rec, events == model, kernel-instance ownership, bit-identical to sequential, ASan+UBSan (no O-dag, no TSan); also cross-checks the shim's reading of the GOMP ABI"},
    "h_sched_tsan": {"flavour": "tsan", "objects": _sched_objects(1), "cflags": ["-fopenmp"], "ldflags": ["-lpthread"], "about": "same engine under ThreadSanitizer with wave policies (mutually unordered tasks released together)"},
    "h_fmm": {"flavour": "asan", "objects": _fmm_objects(), "about": "sequential executors + probe kernels on single trees, Dim 1..4, Morton and periodic Morton"},
    "h_tree": {"flavour": "asan", "objects": _tree_objects(), "cflags": ["-fopenmp"], "ldflags": ["-fopenmp"], "about": "(compiled with -fopenmp and linked with the real libgomp, so that OpenMP-conditional construction paths run as in a user's OpenMP build) tree construction / structure / lookup / export / rebuild over 11 template flavours (Dim 1..4, float/double, data type != real type, 0..4 rhs, periodic ordering, Hilbert ordering, target/source trees)"},
}

EXPL = "exploration"

CHECKS = {
    "C01": {
        "level": EXPL,
        "technique": "runtime monitoring: exact probe kernels (per-pair multiset, polynomial over Z/2^64) + coordinate reference model, ASan/UBSan build with assertions",
        "claim": "Every explored tree (bounded-exhaustive occupancy patterns of small trees, random and large trees in Dim 1..4) gave each particle exactly one contribution from every other particle, with every cell multipole/local equal to the coordinate model; exploration because the input space is unbounded.",
        "note": "Trusted: the harness's coordinate model and exact probe kernels; leaf membership read from the tree (C06 validates it). Held on executions explored only.",
        "jobs": [{"bin": "h_fmm", "mode": "c01"}],
        "rule": "cases = every non-empty leaf-occupancy pattern of the (Dim,height) slices (1,2..5),(2,2..3),(3,2) [quick: all patterns up to 255 leaves-subsets, a seeded sample of 1200 of the 65535 patterns of the two 16-leaf slices], each with 1 and with 1..3 particles per leaf, times block sizes (quick {1,2,3,#leaves,#leaves+1}; thorough 1..#leaves+1) times both grouping modes; plus random trees Dim 1..4 (all distributions, box geometries, block sizes, automatic size, upper level 0/1/2) and large trees. Oracles: P-set exact per-pair counts and per-cell multipole/local vs the coordinate model; P-poly exact polynomial kernel vs direct sum. non-trivial = >= 2 occupied leaves and at least one far or near leaf pair; distinct = distinct (Dim,height,ordering,first block size,mode,N,occupancy hash).",
        "require_events": ["pairs-checked", "poly-results-checked", "cells-checked"],
        "exhaustive_thorough": False,
        "assumptions": ["leaf membership of a particle is read from the tree's leaf headers (validated separately by C06)", "held on the executions explored only; sanitizers are red-zone tools"],
    },
    "C02": {
        "level": EXPL,
        "technique": "runtime monitoring: argument-checking recorder kernel (P-rec) at every operator callback, cross-checked by the exact polynomial kernel and the model's interaction multiset",
        "claim": "On every explored execution every operator call received particles of the right leaf with unmodified data and original indices, distinct children of the stated parent with the true octant code, and sources at exactly the decoded relative offset, at the stated level; exploration over random trees, orderings and executors (sequential, target/source, periodic top tree single and target/source, OpenMP and OpenMP target/source under shim schedules).",
        "note": "Trusted: address->cell map built by walking the tree before execution; Morton octant convention as documented. Held on executions explored only.",
        "jobs": [{"bin": "h_fmm", "mode": "c02"}, {"bin": "h_fmm", "mode": "c09"}, {"bin": "h_fmm", "mode": "c10"}, {"bin": "h_sched", "mode": "c03"}, {"bin": "h_sched", "mode": "c09"}, {"bin": "h_sched", "mode": "c10"}],
        # the other engines run the same argument checker under their own key prefix; only its keys (and crashes) are C02's business there
        "key_filter": ["^c02:", "^c(03|09|10):(hdr-|empty-particles|index-range|data-modified|particle-outside-leaf|child-|children-|count-arg|level-arg|rel-code|adjacency|separation|source-level|sources-|top-|unknown-object|wrong-object|hilbert:)",
                       "^(asan|ubsan|lsan|tsan|memcheck|assert|glibcxx-assert|abort|signal|hang|exit):"],
        "rule": "besides the h_fmm c02 cases, the argument checker runs inside the case sets of C09 (sequential target/source executor), C10 (periodic top tree, single and target/source), and h_sched C03 / C09 / C10 (OpenMP executors under shim schedules); only argument-check keys of those runs are judged here. h_fmm c02: cases = random trees (Dim 1..4, heights 1..8, all distributions incl. face/corner/nextafter points, random box geometry, block sizes, both modes, Morton and periodic-Morton orderings) executed with Checked<P-poly>; every callback is checked (header<->index, particles inside leaf, data bit-identical to input, child/parent relation by address, octant and relative-offset codes, level arguments, counts). non-trivial = at least one M2L or P2P call; distinct = (Dim,height,ordering,block size,mode,upper,N,occupancy hash).",
        "require_events": ["particles-checked", "elementary-interactions"],
        "assumptions": ["operator arguments are observed at the user-kernel boundary only"],
    },
    "C08": {
        "level": EXPL,
        "technique": "runtime monitoring: recorded multiset of elementary interactions compared across groupings and with the model; bit-exact results with the polynomial kernel",
        "claim": "For every explored input, all block sizes (1.., >= #leaves, automatic, TBFMM_BLOCK_SIZE) and both grouping modes produced the identical multiset of elementary interactions (equal to the model's), identical cell expansions and identical results; on the sequential executor, and (h_sched) on TbfOpenmpAlgorithm, TbfAlgorithmTsm and TbfOpenmpAlgorithmTsm under shim schedules, where the automatic / environment block size of both trees must also be >= 1.",
        "note": "Trusted: recorder kernel and model. Number of operator calls is deliberately not compared (batching is legitimate).",
        "jobs": [{"bin": "h_fmm", "mode": "c08"}, {"bin": "h_sched", "mode": "c08"}],
        "rule": "h_fmm periodic TUs also run the documented four-call periodic sequence (single-tree and target/source top tree, extra levels -1..3) under explicit sizes, the automatic size and both modes: results and in-tree expansions identical across groupings and equal to the exact image sum (the top tree gathers level-1 cells across groups). h_sched (one shim schedule is executed per grouping; that the result of that grouping cannot depend on the schedule is checked with the O-dag oracle on the task graph of that very grouping, key c08:result-depends-on-schedule-for-this-grouping): alternately a target/source input (sequential + OpenMP Tsm executors) and a single-tree input (OpenMP executor, reference = sequential executor) under explicit sizes (quick: 6 sampled incl. 1, #leaves, #leaves+1), automatic and TBFMM_BLOCK_SIZE x both modes. h_fmm: case = one random input executed under every block size of {1,2,3,5,8,...,#leaves,#leaves+1,1e7, automatic, automatic via TBFMM_BLOCK_SIZE} (all sizes 1..N+1 when N<=12) x both grouping modes; the sorted multiset (op, level, target, source, code), every multipole/local (by cell) and every result (by original index) must be identical across groupings and equal to model / direct sum. non-trivial = >= 2 occupied leaves and at least one M2L or P2P; distinct = input signature.",
        "require_events": ["groupings", "elementary-interactions", "periodic-groupings", "grouping-task-graphs-checked"],
        "assumptions": [],
    },
    "C12": {
        "level": EXPL,
        "technique": "runtime monitoring of execute(flags) histories: recorder kernel (which operator, which level), byte snapshots of the tree between calls, bit-exact polynomial kernel",
        "claim": "On every explored tree: each single flag called only its operator and wrote only its output kind; every ordered partition of the flags into stages respecting the dependency order (all 2^4 chain cuts x every placement of P2P, plus the documented 3-stage split) ended bit-identical to one full run; for every upper level 0..height no operator ran above it and the result equalled the model evaluated with that level. The same three families (single flags, upper levels 0..height+1, staged histories) held on TbfOpenmpAlgorithm, TbfAlgorithmTsm and TbfOpenmpAlgorithmTsm (the OpenMP ones under shim schedules): events == model with that level, bit-identical to the sequential executor.",
        "note": "Trusted: recorder, snapshots by (level,coord) and by original index, model. The Specx/StarPU executors (mock runtimes) run the upper-level family 0..height+1 (h_specx / h_starpu c12); flag histories are not run on them. The periodic top tree's own flags (M2M / M2L / L2L stages, no-op for the others) are exercised inside the C10 case sets and judged here through the key c10:staged-top-tree.",
        "jobs": [{"bin": "h_fmm", "mode": "c12"}, {"bin": "h_sched", "mode": "c12"}, {"bin": "h_specx", "mode": "c12"}, {"bin": "h_starpu", "mode": "c12"},
                 # the periodic top tree takes operator flags as well: the periodic case sets run it as four flagged calls in a quarter of the cases; only that key is judged here
                 {"bin": "h_fmm", "mode": "c10"}],
        "key_filter": ["^c12", "^c10:staged-top-tree:", "^index-multiset", "^harness:", "^c06:symbolic", "^(asan|ubsan|lsan|tsan|memcheck|assert|glibcxx-assert|abort|signal|hang|exit):"],
        "rule": "the staged-history cases on the OpenMP executors (plain and target/source) also run one full execute() under two shim schedules, judged by the O-dag oracle and by bit-equality with the sequential executor ('staged == full' presupposes that the full run does not depend on the schedule). the named composite flags the README documents (TbfNearField, TbfFarField, TbfNearAndFarFields, TbfBottomToTopStages, TbfTransferStages, TbfTopToBottomStages) are used as such: each alone must call exactly the operators listed for it, and the histories {FarField;NearField}, {NearField;FarField}, {NearAndFarFields}, the documented three-stage split and {BottomToTop;NearField;M2L;TopToBottom} head every sample of staged histories on every executor. cases cycle through three history families on random trees: single flags (6 runs + 6 named composites), staged histories (quick 24 sampled incl. the documented split; thorough all %d), upper levels 0..height (height+1 runs with P-rec + P-set model); h_sched adds six families: upper levels 0..height+1 on the OpenMP executor, on both target/source executors, staged histories on the OpenMP executor and on both target/source executors, every single flag alone on the OpenMP executor and on both target/source executors (events == model masked by the flag, only the flag's output kind changes). non-trivial = tree with >= 2 particles / far or near interactions / height >= 3 respectively; distinct = family + input signature.",
        "require_events": ["single-flag-runs", "staged-histories", "upper-level-runs", "named-flag-runs", "named-flag-partitions-checked"],
        "assumptions": [],
    },
    "C06": {
        "level": EXPL,
        "technique": "runtime monitoring: structural invariant walk over the freshly built tree (applyToAllLeaves/Cells) against the input array and the coordinate model; byte hash of symbolic buffers around execute()",
        "claim": "On every explored input each particle was stored exactly once, in a leaf whose closed box contains it (exactly the expected leaf on dyadic inputs, upper face -> last cell), with its original index and bit-identical data; results and expansions started at zero; execute() left all symbolic buffers byte-identical.",
        "note": "Containment tolerates 4 ulp at leaf faces (either side is legitimate there); exact leaf required when positions and box are dyadic. Morton index<->coordinate checked against the model's encode.",
        "jobs": [{"bin": "h_tree", "mode": "c06"},
                 # "execution of any executor never alters positions" with the shipped kernels that shift source positions for periodic P2P: the periodic target/source
                 # cases of the numerical engine re-read every stored value after the OpenMP target/source executor ran (key c06:positions-changed-by-execute); only c06 keys are judged here
                 {"bin": "h_num", "mode": "c05", "env": {"VH_BOUNDS": "/verif/bounds.json"}, "timeout": 3000},
                 {"bin": "h_num_tsan", "mode": "c05", "env": {"VH_BOUNDS": "/verif/bounds.json", "VH_FORCE_WAVE": "1"}, "timeout": 3000, "per_case": True, "stride": 2, "limit": {"quick": 60, "thorough": 400}}],
        "key_filter": ["^c06", "^(asan|ubsan|lsan|tsan|memcheck|assert|glibcxx-assert|abort|signal|hang|exit):"],
        "rule": "cases = random inputs over 10 tree flavours (Dim 1..4, float/double coordinates, data type different from coordinate type both ways, 1..7 data values, 0..4 result values, periodic ordering) x 8 distributions (uniform, clustered, lattice, cell faces, nextafter neighbours of faces, coincident, single leaf, box faces/corners) + exact-lattice inputs with exactly known leaves x random box geometries, heights, block sizes (incl. automatic), both modes; every 4th case builds target/source trees; plus very large inputs (N = 1000003 .. 1200007 uniform particles, four flavours, under 2..16 threads of the real libgomp the engine is linked with: construction paths that switch on the input size or on _OPENMP) checked with the same oracle and the structural invariants. non-trivial = N >= 2; distinct = (flavour,height,block size,mode,N,#leaves,occupancy hash).",
        "require_events": ["particles-checked", "cells-checked", "executions", "huge-trees"],
        "assumptions": ["inputs are filtered by the library's own precondition 0 <= fl(p-corner) <= width"],
    },
    "C07": {
        "level": EXPL,
        "technique": "runtime monitoring: structural invariant checker over getCellGroupsAtLevel/getParticleGroups against the coordinate model (ancestor closure), bounded-exhaustive small trees",
        "claim": "Every explored tree had, at every level, non-empty groups with strictly increasing indices, header ranges equal to content, cells equal to the parents of the level below, leaf cell groups mirroring particle groups leaf by leaf with contiguous offsets, and no group above the block size (default mode) / parent groups covering exactly one child group's new parents (one-group-per-parent mode); also after rebuild and for both trees of the target/source variant.",
        "note": "Trusted: the model's parent relation on coordinates. Exhaustive only inside the enumerated (Dim,height) slices.",
        "jobs": [{"bin": "h_tree", "mode": "c07"}],
        "rule": "cases = random inputs over the 10 flavours (every 4th: target/source trees; every 4th: checked again after rebuild) + every occupancy pattern of (Dim,height) in {(1,2..5),(2,2..3),(3,2)} (quick: sample of 800 for the two 16-leaf slices) x every block size 1..#leaves+1 x both modes. non-trivial = >= 2 particles / >= 2 occupied leaves; distinct = tree signature or (slice, mask).",
        "require_events": ["structure-cells-checked", "trees", "rebuilt-trees", "tsm-trees"],
        "exhaustive_thorough": False,
        "assumptions": [],
    },
    "C13": {
        "level": EXPL,
        "technique": "runtime monitoring of move/rebuild/execute histories: rebuilt tree compared with a tree freshly built from the edited array (leaf per index, group layout, data bits, preserved results, zeroed expansions), exact kernels for the following execution",
        "claim": "In every explored history the rebuilt tree equalled a fresh tree of the edited particles (same leaf per original index, same groups), kept every data value bit-for-bit and every result value, reset all expansions, satisfied the structural invariants, and the next execution added exactly one full interaction.",
        "note": "Order of particles inside a leaf is not compared (the sort is not stable).",
        "jobs": [{"bin": "h_tree", "mode": "c13"}, {"bin": "h_fmm", "mode": "c13"}],
        "rule": "case = build, then 1..4 cycles of {write recognisable results and expansions, move a random subset in place (all / into one leaf / onto box faces and corners / onto cell faces), rebuild, compare with fresh tree, execute}; 10 tree flavours incl. data type != coordinate type and periodic ordering (h_tree, counting kernel) and P-poly trees Dim 1..4 (h_fmm: rhs == rhs_before + exact direct sum at the new positions); plus a few empty-input cases (N = 0 single trees, target/source trees with an empty half: built, executed, rebuilt three times, queried - only 'nothing exists in it' is judged, the cases serve C15). non-trivial = at least one particle moved and N >= 2; distinct = tree signature + cycles.",
        "require_events": ["rebuild-cycles", "particles-moved", "leaf-changes"],
        "assumptions": [],
    },
    "C16": {
        "level": EXPL,
        "technique": "runtime monitoring: differential oracle - every lookup compared with a brute-force scan of all groups",
        "claim": "Every explored query (every index in [-2, upper bound+2] of every level of small trees; present, neighbouring, random and out-of-range indices on larger ones) returned a handle iff the cell/leaf exists, pointing at the right group and position; group-level first-child-of-parent and index lookups agreed with linear scans.",
        "note": "Trusted: linear scans through the public group accessors.",
        "jobs": [{"bin": "h_tree", "mode": "c16"}, {"bin": "h_tree", "mode": "c07"},
                 # query histories: the move / rebuild cycles of C13 look cells and leaves up before the move and after the rebuild on the same tree object; only those keys are judged here
                 {"bin": "h_tree", "mode": "c13"}],
        "key_filter": ["^c16", "^(asan|ubsan|lsan|tsan|memcheck|assert|glibcxx-assert|abort|signal|hang|exit):"],
        "rule": "cases = random trees over 10 flavours (every 4th: source and target trees) with exhaustive index ranges when the level has <= 5000 indices, sampled otherwise; plus the enumerated occupancy slices of C07 (all block sizes, both modes) with exhaustive queries; plus query histories on one tree object: the same lookups before the particles are moved and after rebuild(), in every move / rebuild cycle of the C13 case sets (single and target/source trees). non-trivial = N >= 2; distinct = tree signature.",
        "require_events": ["lookup-queries", "lookup-hits"],
        "assumptions": [],
    },
    "C17": {
        "level": EXPL,
        "technique": "runtime monitoring: differential oracle on getAllParticlesData/Rhs vs values read through applyToAllLeaves and the input array, under ASan + _GLIBCXX_ASSERTIONS",
        "claim": "On every explored tree entry i of the bulk exports held the data / result values of the particle inserted at position i (1..7 data values, 0..4 result values, N below and above the number of values), before and after execute and rebuild, for source and target trees.",
        "note": "Export arrays are typed RealType by the API; comparison is made after the same conversion.",
        "jobs": [{"bin": "h_tree", "mode": "c17"}, {"bin": "h_tree", "mode": "c13"}],
        "rule": "cases = random trees over 10 flavours, a third with N <= 5 (fewer particles than values), exports checked after build, after execute (distinct result rows), after rebuild; every 4th case target/source trees; plus every rebuild cycle of C13. non-trivial = N >= 2; distinct = tree signature.",
        "require_events": ["export-entries-checked"],
        "assumptions": [],
    },
    "C03": {
        "level": EXPL,
        "technique": "runtime monitoring under a controlled scheduler: OpenMP executors linked against a GOMP-ABI shim that records declared dependencies and runs every task under hostile legal schedules; offline O-dag checker (observed conflicting accesses vs declared graph), bit-exact comparison with the sequential executor, ASan (stack-use-after-return/scope) and TSan builds",
        "claim": "For every explored tree and schedule (10 policies incl. full deferral, LIFO, random, priority-inverted, waves; 1..16 threads; random worker assignment) the OpenMP executors left the tree bit-identical to the sequential one; every pair of tasks observed to touch the same cell/leaf object with a writer was ordered by the declared dependencies (so every linear extension of the observed graphs is conflict-free); no task read a dead variable (ASan) and overlapping tasks showed no data race (TSan).",
        "note": "Trusted: the shim's reading of the GOMP ABI (argument block copy, depend[] layout, priority, single) and of OpenMP task-dependence semantics (depend clauses relate sibling tasks only: they are resolved per generating task region, so tasks generated by another thread of the team are unordered with the master's); access sets are observed at cell/leaf granularity by the probe kernel. The Specx and StarPU executors run against API-compatible mock runtimes built on the same scheduler core (ASan builds in both tiers, TSan builds in the thorough tier); the mocks are our reading of the runtimes' documented contract, not the runtimes.",
        "jobs": [{"bin": "h_sched", "mode": "c03"}, {"bin": "h_sched_tsan", "mode": "c03"}, {"bin": "h_omp", "mode": "c03"}, {"bin": "h_specx", "mode": "c03"}, {"bin": "h_specx_tsan", "mode": "c03", "thorough_only": True},
                 {"bin": "h_starpu", "mode": "c03"}, {"bin": "h_starpu_tsan", "mode": "c03", "thorough_only": True},
                 # the target/source task executors are in this property's quantifier too: same engines, mode c09; only schedule-related keys of those runs are judged here
                 {"bin": "h_sched", "mode": "c09"}, {"bin": "h_sched_tsan", "mode": "c09"}, {"bin": "h_omp", "mode": "c09"}, {"bin": "h_specx", "mode": "c09"}, {"bin": "h_starpu", "mode": "c09"}],
        "key_filter": ["^c03", "^c09(-specx|-starpu)?:(odag|differs-from-sequential|kernel-instance|task-created)", "^(asan|ubsan|lsan|tsan|memcheck|assert|glibcxx-assert|abort|signal|hang|exit):"],
        "rule": "a quarter of the executors are built from a user-supplied kernel object (const lvalue: the copy path that makes the per-worker kernels). also judged here: the schedule-related keys (O-dag, O-seq, kernel-instance ownership, sanitizers) of the target/source case sets (mode c09) of the same engines, and h_omp = the same executors on the real libgomp runtime with 1..16 threads (quick: {1, 16, one of 2/3/4/8} x 2 repetitions). case = one random tree (Dim 1..3, Morton and periodic Morton, heights up to 5..8, small block sizes so that many tasks exist) executed by TbfOpenmpAlgorithm under a set of schedules: quick = each of the 10 policies with a random thread count in {1,2,3,4,8,16} + single-thread full deferral + a 16-thread wave; thorough = every policy x every thread count; TSan build = wave policies on 2..16 threads. non-trivial = more than 3 tasks per schedule; distinct = tree signature. Evidence counts tasks, declared edges, conflicting pairs checked, distinct execution orders, max overlap.",
        "require_events": ["schedules-executed", "tasks-executed", "dag-conflicting-pairs-checked", "distinct-execution-orders"],
        "assumptions": ["task bodies are deterministic functions of the data they access (checked by observation: bit-identical results under all schedules)"],
    },
    "C09": {
        "level": EXPL,
        "technique": "runtime monitoring: exact probe kernels (per-source multiset, polynomial) on target/source trees against the coordinate model and the direct sum; OpenMP target/source executor under the scheduler shim with O-dag/O-seq/P-rec and ASan",
        "claim": "On every explored pair of source/target sets each target accumulated exactly one contribution from each source (model count when periodic), nothing else; source multipoles and target locals equalled the model cell by cell; the OpenMP target/source executor gave bit-identical trees under all explored schedules with all observed conflicts ordered by declared dependencies.",
        "note": "Sources carry no result storage and targets no multipoles by type (NbRhs=0 / void_data), which is observed by the recorder never being handed such an object.",
        "jobs": [{"bin": "h_fmm", "mode": "c09"}, {"bin": "h_sched", "mode": "c09"}, {"bin": "h_omp", "mode": "c09"}, {"bin": "h_specx", "mode": "c09"}, {"bin": "h_starpu", "mode": "c09"}],
        "rule": "case = independent source and target sets (independent / disjoint halves / identical positions / sources in one leaf / targets in one leaf / single source or target) x distributions x geometry x block sizes x both modes; OpenMP executor under the C03 schedule sets (h_sched); plus the sequential target/source executor with the Hilbert ordering (per-pair counts only: the geometric cell clauses are the known finding of C11). non-trivial = more than 3 tasks per schedule (h_sched) / at least one far or near leaf pair (h_fmm); distinct = configuration hash.",
        "require_events": ["schedules-executed", "tasks-executed", "poly-results-checked", "tsm-pairs-checked", "tsm-cells-checked"],
        "assumptions": [],
    },
    "C10": {
        "level": EXPL,
        "technique": "runtime monitoring: exact polynomial probe kernel (position-, level- and code-sensitive) against the explicit image sum over the interval the library reports; argument-checking recorder on the real tree and on the periodic top tree; counting kernel; pattern-initialised locals",
        "claim": "For every explored input, extra-level count -1..5 and box, the documented four-call periodic sequence gave every particle exactly the sum over all particle images in the reported repetition cube (self excluded in the central box only), bit-exactly with a kernel whose value depends on the image displacement; the reported repetition count equalled the interval size. Held with the sequential executors and with the OpenMP executors (single and target/source) under shim schedules.",
        "note": "The set of images is pinned through a non-symmetric degree-3 polynomial kernel (degree 2 in Dim 4 is not used here), so a wrong window or a wrong displacement changes the value. Trusted: the lattice embedding of the harness and the closed-form image sum.",
        "jobs": [{"bin": "h_fmm", "mode": "c10"}, {"bin": "h_sched", "mode": "c10"}],
        "rule": "h_sched: the same four-call sequence with TbfOpenmpAlgorithm / TbfOpenmpAlgorithmTsm as the executor around the top-tree step, each execute() under a fresh random shim schedule (policy, 1..8 threads), 2 (quick) or 4 (thorough) schedule sets per input, extra levels -1..2 (thorough -1..5). h_fmm: case = random tree with periodic Morton ordering (Dim 1..3, heights 2..8, any centre/width incl. per-dimension widths, a third of the cases with particles on the box faces/corners), extra levels -1..5 (Dim 3: -1..3), run with Checked<P-poly> (every case), the counting kernel (every 3rd) or the target/source top tree (every 3rd); in a quarter of the cases the top tree is run as four flagged calls (P2M|P2P|L2P: nothing to do, then M2M, M2L, L2L) instead of one. non-trivial = any; distinct = (input signature, extra levels).",
        "require_events": ["periodic-runs", "counting-runs", "periodic-tsm-runs", "image-pairs-checked", "top-tree-staged-runs"],
        "assumptions": [],
    },
    "C11": {
        "level": EXPL,
        "technique": "runtime monitoring: differential oracle - every public index-API result compared with an independent coordinate model (set equality of lists, decode of every position code), exhaustive over small levels",
        "claim": "For Morton in Dim 1..4 (periodic or not): on every explored cell, coordinates and indices were in bijection below the level bound, the parent index decoded to the containing cell, the child code was the octant, interaction and neighbour lists equalled the model's sets (wrapped / clipped), per-group builders partitioned them correctly with codes decoding to the true offset, and code encode/decode were inverse over the whole range. For Hilbert (Dim 3) the same clauses are run; the two that fail are recorded as a known finding.",
        "note": "Exhaustive for every cell of every level up to a bound only (quick: Dim1<=10, Dim2<=6, Dim3<=4, Dim4<=3); random cells up to level min(30, 62/Dim) because the configuration object itself shifts an int by height-1.",
        "jobs": [{"bin": "h_index", "mode": "c11"}],
        "rule": "cases = chunks of 2048 cells covering every cell of every level up to the bound, for tree heights level+1 and level+2; 300 random cells (incl. box corners/edges) at large levels; synthetic groups (contiguous, sparse, spanning, gapped) for the per-group builders with both values of the self-inclusion and upper-half filters, at the leaf level of the index configuration and one or two levels above it (the builders take the level as an argument); whole code ranges; positions on faces. non-trivial = level >= 1 (groups: >= 2 cells and level >= 2); distinct = (ordering, level, chunk) or case id.",
        "require_events": ["cells-checked", "interaction-entries-checked", "neighbor-entries-checked", "group-interaction-entries-checked", "codes-checked", "positions-checked"],
        "exhaustive_quick": False,
        "assumptions": [],
    },
    "C18": {
        "level": EXPL,
        "technique": "runtime monitoring: counters read through the documented applyToAllKernels/Reduce merge compared with the model's count of elementary interactions; bit-exact comparison of wrapped vs unwrapped kernel; scheduler shim for per-worker copies; TSan build",
        "claim": "On every explored tree, executor (sequential; OpenMP under all shim schedules with 1..16 workers) and merge order, the merged counters equalled the model's number of leaves, parent-child links, transfer pairs and particle pairs, doubled after a second execute, and the wrapped kernel's results were bit-identical to the unwrapped kernel's; the timer wrapper left results unchanged.",
        "note": "Elapsed times of the timer wrapper are never judged. Counter + target/source executor is outside the property's quantifier (it does not compile, DESIGN.md section 7 D9).",
        "jobs": [{"bin": "h_fmm", "mode": "c18"}, {"bin": "h_sched", "mode": "c18"}, {"bin": "h_sched_tsan", "mode": "c18"}],
        "rule": "cases = random trees (Dim 1..4 sequential, Dim 1..3 OpenMP; Morton and periodic Morton) with counter<P-poly>, counter<TbfTestKernel> or timer<P-poly>; per-worker counters merged in every permutation (<= 5 workers) or 6 random ones; OpenMP runs under the C03 schedule sets; part of the runs build the executor from a fresh user-built counter kernel (kernel-object constructor), part run a second execute() after the number of threads was lowered (totals must still double: the counts of workers no longer used belong to the totals); every fifth case has its upper working level at or beyond the leaf level (no far field: every far-field counter, the leaf operators included, must stay 0). non-trivial = at least one transfer or particle pair expected; distinct = configuration signature.",
        "require_events": ["counter-values-checked", "merge-orders", "worker-copies-merged", "schedules-executed", "timer-merges", "executes-after-lowering-threads"],
        "assumptions": [],
    },
    "C14": {
        "level": EXPL,
        "technique": "runtime monitoring: address-range monitor over every viewer accessor (inside buffer, below trailer, sub-blocks disjoint), byte copies into exactly-sized allocations under ASan, index-range hook H1 in the viewers, differential run of all operators on byte-copied views",
        "claim": "For every explored layout (1..4 sub-blocks of scalar / vector / multi-row / multi-column kinds, element sizes 1..4096 bytes, counts 0..10^4 incl. rows ending on / one past a 64-byte boundary) all accessors stayed inside the buffer and below the trailer, sub-blocks never overlapped, a byte copy viewed through the raw-memory constructor returned identical values (also after shrinking reuse, move construction/assignment, regrow); for every explored tree, byte copies of all groups were equivalent views and the full operator sequence run on the views left byte-identical buffers.",
        "note": "Trusted: address arithmetic of the harness. Over-aligned element types (alignas > 16) are not exercised; mixed-alignment layouts use alignments that are multiples of 8 (the library concatenates sub-blocks without padding the start of a block to its own alignment, so smaller ones would misalign long/double by construction of the layout, which is the caller's choice).",
        "jobs": [{"bin": "h_mem", "mode": "c14"}],
        "rule": "cases = 8 layout families (three of them with sub-blocks of different alignment template arguments: 8/8/64/8, 16/128/8, 64/8/32/256) x random counts (0, 1, k*64/size, k*64/size+1, small, up to 2000/10^4) each followed by a random smaller count set; and random trees (Dim 1..3, periodic Dim 3) whose every cell/particle group is byte-copied, viewed (array / pointer-size constructors, moved views, partial views, and deferred views built with inInitFromMemory=false before the bytes arrive and finished with initMemoryBlockHeader()), compared accessor by accessor, then executed through TbfAlgorithm on the views and compared byte for byte with the originals. non-trivial = any layout case / tree with >= 2 groups; distinct = case id or configuration signature.",
        "require_events": ["elements-checked", "layouts-exercised", "groups-viewed", "bytes-compared", "viewer-bounds-hook-checks", "leaf-accessor-sets-checked", "row-kernel-runs"],
        "assumptions": [],
    },
    "C20": {
        "level": EXPL,
        "technique": "runtime monitoring: differential oracle - FullMutual / GenericInner / GenericFullRemote against a long double evaluation of the pairwise law with a first-order rounding bound",
        "claim": "On every explored pair of particle clouds (counts 0..500 incl. 0, 1 and +-1 around multiples of 4..64, separations over 12 orders of magnitude, either sign and neutral particles (charge exactly 0, which still receive a potential), common charge magnitudes 1e-2..1e2, float and double, non-zero initial results) the routines added to every target sum q_j/r and q_i q_j (x_j-x_i)/r^3 within (n+12) eps times the sum of absolute terms, excluded the self term, left sources untouched in the one-sided routine, produced bit-exactly opposite forces for a single pair and balanced total force in general.",
        "note": "Scalar path only: Inastemp is not present in this image, the vectorised path is out of reach.",
        "jobs": [{"bin": "h_num", "mode": "c20", "env": {"VH_BOUNDS": "/verif/bounds.json"}}],
        "rule": "case = random source and target clouds; remote, mutual and inner routines each compared component by component with the long double reference. Every fourth case passes the owning std::array<std::vector<T>,4> containers themselves instead of arrays of raw pointers (the routines take any container with operator[] per row). Every third case also calls the mutual routine on a cloud and its own shifted image with one set of result arrays for both sides (what the kernels do for a leaf that is its own periodic neighbour): action and reaction of every ordered pair must both arrive. non-trivial = both clouds non-empty; distinct = (type, counts, scale, sign, initial-rhs flag, neutral-particle pattern, charge scale).",
        "require_events": ["p2p-values-checked", "p2p-opposite-pairs-checked", "p2p-cases-with-neutral-particles", "p2p-own-image-cases", "p2p-owning-container-calls"],
        "assumptions": ["tolerance coefficient p2p.coef in bounds.json (2.0) multiplies the first-order worst-case summation bound"],
    },
    "C04": {
        "level": EXPL,
        "technique": "runtime monitoring: rotation-kernel FMM results compared with a long double direct sum (error normalised by the sum of absolute pair contributions) under calibrated P-dependent bounds; invariance monitors (grouping, executor via scheduler shim, linearity in the charges); periodic variant against the explicit image sum",
        "claim": "On every explored input (cubic boxes of any centre/width, points on cell faces/centres/axes, either charge sign, heights 1..5 quick / 1..7 thorough, P in {4,6,8,12}, float and double) potentials and forces were finite and within the calibrated bound of order P, results were unchanged to rounding by block size, grouping mode, executor and linear splitting of the charges, and the periodic variant matched the explicit sum over the reported images.",
        "note": "Bounds are empirical: 6x the maximum error observed in calibration runs on the repaired tree (bounds.json); they decrease with P.",
        "jobs": [{"bin": "h_num", "mode": "c04", "env": {"VH_BOUNDS": "/verif/bounds.json"}, "timeout": 3000},
                 {"bin": "h_num_tsan", "mode": "c04", "env": {"VH_BOUNDS": "/verif/bounds.json", "VH_FORCE_WAVE": "1"}, "timeout": 3000, "per_case": True, "stride": 2, "limit": {"quick": 60, "thorough": 400}}],
        "rule": "a third of the accuracy cases use neutral +q/-q pairs sharing a leaf (cells with exactly zero net charge); a strided subset of the cases also runs in a ThreadSanitizer build where every invariance re-run uses the OpenMP executor with unordered tasks released together on >= 4 real threads (shared scratch state inside a kernel is a data race there). case = random charged particle set (7 distributions incl. cell centres and axes) in a random cubic box, rotation kernel of order P, sequential executor; every 3rd case re-run with another block size / mode / the OpenMP executor on the shim; every 5th case linearity; every 4th case periodic with extra levels -1..1(2). non-trivial = height >= 3 (periodic: any); distinct = (P, type, height, N, distribution, case id).",
        "require_events": ["targets-compared", "fmm-runs", "invariance-pairs", "periodic-runs"],
        "assumptions": ["accuracy bounds are calibrated, not derived"],
    },
    "C05": {
        "level": EXPL,
        "technique": "runtime monitoring: uniform-kernel FMM results compared with a long double direct sum under calibrated order-dependent bounds; invariance monitors incl. cell-by-cell parent expansions with children delivered one at a time vs all at once; target/source and periodic variants",
        "claim": "On every explored input (orders 3..8, float and double, heights 1..5 quick / 1..6 thorough) potentials and forces were finite and within the calibrated bound of the order, unchanged to rounding by block size, grouping mode and executor; parent expansions were equal to rounding whether children arrived in one batch or one by one; target/source and periodic variants matched their references.",
        "note": "Bounds are empirical (bounds.json), 6x the calibration maximum.",
        "jobs": [{"bin": "h_num", "mode": "c05", "env": {"VH_BOUNDS": "/verif/bounds.json"}, "timeout": 3000},
                 {"bin": "h_num_tsan", "mode": "c05", "env": {"VH_BOUNDS": "/verif/bounds.json", "VH_FORCE_WAVE": "1"}, "timeout": 3000, "per_case": True, "stride": 2, "limit": {"quick": 60, "thorough": 400}}],
        "rule": "every second periodic case is a periodic target/source case (periodic ordering, target/source tree, executor and top tree) against the explicit image sum. a third of the accuracy cases use neutral +q/-q pairs sharing a leaf (cells with exactly zero net charge); a strided subset of the cases also runs in a ThreadSanitizer build where every invariance re-run uses the OpenMP executor with unordered tasks released together on >= 4 real threads (shared scratch state inside a kernel is a data race there). case = random charged particle set in a random cubic box, FUnifKernel<FInterpMatrixKernelR> of the given order; every 3rd accuracy case re-run with block size 1 or one huge block and another executor, comparing results and every cell's multipole expansion; every 5th case periodic, every 5th target/source (re-run on the OpenMP target/source executor under a shim schedule with another grouping: equal to rounding). non-trivial = height >= 3 (periodic: any); distinct = (order, type, height, N, distribution, case id).",
        "require_events": ["targets-compared", "fmm-runs", "invariance-pairs", "cells-compared", "periodic-runs", "tsm-runs"],
        "assumptions": ["accuracy bounds are calibrated, not derived"],
    },
    "C15": {
        "level": EXPL,
        "technique": "sanitizers as the oracle: the union of the C01/C09/C10/C13/C03 workloads in the ASan+UBSan(+LSan) build with the library's assertions, _GLIBCXX_ASSERTIONS and the viewer bounds hook enabled, the task executors also under TSan, plus a valgrind-memcheck subset for uninitialised-value use; every report is reduced to (tool, kind, first frame in /repo/src)",
        "claim": "No sanitizer report, assertion failure, leak or hook failure occurred on any explored execution of building, executing (sequential, target/source, periodic, OpenMP under hostile schedules), rebuilding, querying and destroying trees. This is 'no report on the executions explored', not memory safety: red-zone tools miss non-adjacent and intra-object overflows (the bounds hook narrows this for group buffers only).",
        "note": "Only keys produced by a tool (asan/ubsan/lsan/tsan/memcheck/assert/glibcxx-assert/abort/signal/hang) count here; behavioural keys of the same runs belong to their own checks. MSan is not used (uninstrumented libstdc++/FFTW).",
        "jobs": [{"bin": "h_fmm", "mode": "c01"}, {"bin": "h_fmm", "mode": "c09"}, {"bin": "h_fmm", "mode": "c10"}, {"bin": "h_tree", "mode": "c13"},
                 {"bin": "h_sched", "mode": "c03"}, {"bin": "h_sched", "mode": "c09"}, {"bin": "h_sched_tsan", "mode": "c03"}, {"bin": "h_mem", "mode": "c14"},
                 # the mock Specx / StarPU executors are the in-library users of the size getters and of non-owning group views (getDataPtrsAndSizes -> container built on foreign memory)
                 {"bin": "h_specx", "mode": "c03"}, {"bin": "h_starpu", "mode": "c03"},
                 {"bin": "h_num_asan", "mode": "c04", "env": {"VH_BOUNDS": "/verif/bounds.json"}, "timeout": 3000}, {"bin": "h_num_asan", "mode": "c05", "env": {"VH_BOUNDS": "/verif/bounds.json"}, "timeout": 3000}, {"bin": "h_num_asan", "mode": "c20", "env": {"VH_BOUNDS": "/verif/bounds.json"}},
                 {"bin": "h_mc", "mode": "c10", "wrapper": VALGRIND, "per_case": True, "stride": 2, "limit": {"quick": 24, "thorough": 150}, "env": {"VH_CASE_TIMEOUT": "1200", "VH_NO_LEAK_CHECK": "1"}, "timeout": 2400},
                 {"bin": "h_mc", "mode": "c09", "wrapper": VALGRIND, "per_case": True, "stride": 2, "limit": {"quick": 12, "thorough": 80}, "env": {"VH_CASE_TIMEOUT": "1200", "VH_NO_LEAK_CHECK": "1"}, "timeout": 2400},
                 {"bin": "h_mc", "mode": "c01", "wrapper": VALGRIND, "per_case": True, "stride": 2, "limit": {"quick": 12, "thorough": 80}, "env": {"VH_CASE_TIMEOUT": "1200", "VH_NO_LEAK_CHECK": "1"}, "timeout": 2400}],
        "key_filter": ["^(asan|ubsan|lsan|tsan|memcheck|assert|glibcxx-assert|abort|signal|hang|exit):"],
        "rule": "plus the memory engine (C14 case set: moved, reused, viewed blocks and groups) and the C03 case sets of the mock Specx / StarPU executors (the in-library users of size getters and non-owning group views) in both tiers; plus the C04 / C05 / C20 case sets in an ASan+UBSan+LSan build of the numerical engine (h_num_asan: the rotation, uniform and direct P2P kernels themselves; accuracy bounds are not judged in that build). cases = the quick (resp. thorough) case sets of C01, C09, C10, C13, C03 (ASan+UBSan, TSan for the scheduler runs) and a strided subset of the Dim-3 C01/C09/C10 cases under valgrind memcheck with origin tracking. non-trivial / distinct as in the contributing checks. Evidence lists the jobs and their builds.",
        "require_events": ["pairs-checked", "periodic-runs", "rebuild-cycles", "schedules-executed"],
        "assumptions": ["a clean run is 'no report on K executions reaching these operators', not memory safety"],
    },
}
# ------------------------------------------------------------------------------------------------ C19: configuration matrix
def _cell_name(c): return "cfg_d%d_r%d_o%d_a%d_b%d_e%d_v%d" % c

def c19_cells(tier):
    full = []
    for d in (1, 2, 3, 4):
        for r in (0, 1):
            for o in ((0, 1, 2) if d == 3 else (0, 1)):
                for a in (0, 1):
                    for b in (0, 1):
                        for e in (0, 1, 2, 3):
                            full.append((d, r, o, a, b, e, 0))
                if True:
                    for o2 in (0, 1):
                        for b in (0, 1):
                            full.append((d, r, o2, 0, b, 0, 1)); full.append((d, r, o2, 0, b, 0, 2))
    full = sorted(set(full))
    if tier == "thorough": return full
    # covering subset: every value of every axis appears, and the pairs (dimension x ordering), (dimension x executor)
    quick = [(1,0,0,1,1,0,0), (1,1,1,0,1,1,0), (1,0,0,0,0,2,0), (2,1,0,1,1,1,0), (2,0,1,0,1,0,0), (2,0,1,1,0,2,0), (3,0,2,0,1,0,0), (3,1,2,1,0,1,0),
             (3,0,1,1,1,2,0), (3,1,0,0,0,0,0), (3,0,1,0,1,1,0), (4,0,0,1,1,0,0), (4,1,1,0,1,2,0), (4,0,0,0,0,1,0), (4,1,1,1,1,0,0), (1,0,1,1,0,2,0),
             (2,1,0,0,1,2,0), (3,1,2,0,0,2,0), (1,1,0,0,1,0,1), (2,0,1,0,1,0,2), (3,0,0,0,1,0,1), (3,1,1,0,0,0,2), (4,0,0,0,1,0,2), (4,1,1,0,1,0,1),
             (2,1,0,0,1,3,0), (3,0,1,1,0,3,0), (4,1,0,1,1,3,0)]
    return quick

for _c in c19_cells("thorough"):
    BINARIES[_cell_name(_c)] = {"flavour": "asan", "cflags": ["-fopenmp"], "ldflags": ["-lpthread"],
        "objects": [("cfg_tu.cpp", ["VC_DIM=%d" % _c[0], "VC_REALF=%d" % _c[1], "VC_ORD=%d" % _c[2], "VC_AUTO=%d" % _c[3], "VC_REBUILD=%d" % _c[4], "VC_EXEC=%d" % _c[5], "VC_VARIANT=%d" % _c[6]], "main"), ("rt/sched.cpp", [], "sched")],
        "about": "C19 configuration cell"}

BINARIES["cfg_selector"] = {"flavour": "asan", "cflags": ["-fopenmp", "-I" + _MOCK + "/specx", "-I" + _MOCK + "/starpu"], "ldflags": ["-lpthread"],
    "objects": [("sel_tu.cpp", [], "main"), ("rt/sched.cpp", [], "sched")], "about": "C19: selector header with OpenMP+Specx+StarPU all defined, against the mock runtime headers"}

def quick_setup_binaries():
    return [_cell_name(c) for c in c19_cells("quick")] + ["cfg_selector"]

def run_c19(V, cid, tier, seed):
    """Build every cell (a compile error inside /repo/src is a verdict, not a harness failure), then run the cells that built."""
    import time, re, concurrent.futures as cf
    t0 = time.time()
    cells = c19_cells(tier)
    recs, built = [], {}
    cells = list(cells) + ["selector"]
    _orig_name = globals()["_cell_name"]
    _cell_name = lambda c: "cfg_selector" if c == "selector" else _orig_name(c)
    def build_one(c):
        try: return c, V.build([_cell_name(c)], quiet=True)[_cell_name(c)], None
        except V.BuildError as e: return c, None, e.err
    with cf.ThreadPoolExecutor(max(1, V.NPROC // 2)) as ex:   # each cell compiles two objects
        results = list(ex.map(build_one, cells))
    for c, path, err in results:
        if path: built[c] = path; continue
        m = re.search(r"(" + re.escape(V.SRC) + r"/\S+?):(\d+):\d+: error: (.+)", err or "")
        if m:
            msg = re.sub(r"[\u2018\u2019']", "", m.group(3)); msg = re.sub(r"<.*", "", msg)[:70].strip()
            key = "build:%s:%s" % (m.group(1).replace(V.SRC + "/", ""), msg)
            recs.append({"k": 0, "_mode": "c19", "_bin": _cell_name(c), "sig": "build:" + _cell_name(c), "nontrivial": True, "verdict": "violation",
                         "violations": [{"key": key, "detail": "configuration %s does not compile: %s:%s: %s" % (_cell_name(c), m.group(1), m.group(2), m.group(3)[:300])}],
                         "events": {}, "desc": "translation unit of configuration " + _cell_name(c), "_stderr": (err or "")[:6000]})
        else:
            print("HARNESS-FAILURE property=%s cell %s failed to build outside /repo/src:\n%s" % (cid, _cell_name(c), (err or "")[-1500:]))
            return 2
    V.prune_cache()
    with cf.ThreadPoolExecutor(V.NPROC) as ex:
        futs = []
        for c, path in built.items():
            n = V.get_count(path, "c19", tier)
            futs.append(ex.submit(V.run_chunk, path, "c19", seed, 0, n, tier, 1800, None, None))
        for f in futs: recs.extend(f.result())
    for r in recs: r.setdefault("events", {}); 
    recs.append({"k": -1, "_mode": "c19", "_bin": "matrix", "verdict": "ok", "sig": "", "nontrivial": False, "desc": "", "events": {"cells-built": len(built), "cells-in-matrix": len(cells)}})
    return V.judge(cid, CHECKS[cid], tier, seed, recs, time.time() - t0, False)

CHECKS["C19"] = {
    "level": EXPL,
    "technique": "build probe (observation of the compiler on one translation unit per documented configuration) + runtime monitoring of each configuration's program with the C01/C06/C13 oracles under ASan/UBSan",
    "claim": "Every explored cell of the documented matrix (dimension 1..4 x float/double x Morton/periodic Morton/Hilbert(3D) x automatic/explicit block size x with/without rebuild x sequential/OpenMP/target-source/OpenMP-target-source executor, plus data type != coordinate type and zero result values) compiled, and its program satisfied the exactly-once, construction and rebuild oracles on a seeded sample of trees.",
    "note": "The compile half is a build probe, not runtime monitoring (it is the observable the property names). Quick runs a 27-cell covering subset, thorough the full matrix (352 cells). The selector header with OpenMP+Specx+StarPU all defined is compiled and run against the mock runtime headers (harness/mock).",
    "jobs": [],
    "rule": "case = one seeded tree of one configuration cell, cycling through construction (C06 oracle), exactly-once through the configured executor (C01 oracle: P-set/P-poly, OpenMP under the scheduler shim with O-seq/O-dag, target/source, counting kernels for the data-type and zero-rhs variants), rebuild cycles (C13 oracle) or structure (cells without rebuild). non-trivial as in the contributing oracles; distinct = (cell, case signature).",
    "require_events": ["cell-cases", "cells-built"],
    "assumptions": ["a configuration that does not compile is a violation whose witness is the compiler's first error inside /repo/src"],
}
SPECIAL = {"C19": run_c19}
NOT_CLAIMED = {}
HOOK_COMMITS = ["1b1b322 verif hook (guard TBFMM_VERIF): index-range check in the block viewers"]

