// Engine h_mem (C14): flat self-describing buffers. Part A: TbfMemoryBlock over a family of layouts.
// Part B: cell / particle groups of real trees viewed through byte copies, operators run on the views.
#include "fmm_modes.hpp"
#include "containers/tbfmemoryblock.hpp"
#include "containers/tbfmemoryscalar.hpp"
#include "containers/tbfmemoryvector.hpp"
#include "containers/tbfmemorymultirvector.hpp"
#include "containers/tbfmemorymultivvector.hpp"
#include <tuple>

namespace {
using vh::Result;

template <int N> struct Bytes { unsigned char b[N]; };

// uniform access to the four block kinds
template <class B> struct Kind;
template <class T, long A> struct Kind<TbfMemoryScalar<T, A>> { static constexpr int rows = 1; static constexpr bool scalar = true;
    template <class V> static auto& at(V& v, long, long) { return v.getItem(); } static const char* name() { return "scalar"; } using Elem = T; };
template <class T, long A> struct Kind<TbfMemoryVector<T, A>> { static constexpr int rows = 1; static constexpr bool scalar = false;
    template <class V> static auto& at(V& v, long i, long) { return v.getItem(i); } static const char* name() { return "vector"; } using Elem = T; };
template <class T, long R, long A> struct Kind<TbfMemoryMultiRVector<T, R, A>> { static constexpr int rows = int(R); static constexpr bool scalar = false;
    template <class V> static auto& at(V& v, long i, long r) { return v.getItem(i, r); } static const char* name() { return "multi-row"; } using Elem = T; };
template <class T, long R, long A> struct Kind<TbfMemoryMultiVVector<T, R, A>> { static constexpr int rows = int(R); static constexpr bool scalar = false;
    template <class V> static auto& at(V& v, long i, long r) { return v.getItem(i, r); } static const char* name() { return "multi-col"; } using Elem = T; };

template <class Elem> void fillPattern(Elem& e, uint64_t salt) { unsigned char* p = reinterpret_cast<unsigned char*>(&e); for (size_t k = 0; k < sizeof(Elem); ++k) p[k] = (unsigned char)(vh::mix(salt, k) & 0xff); }
template <class Elem> bool hasPattern(const Elem& e, uint64_t salt) { const unsigned char* p = reinterpret_cast<const unsigned char*>(&e); for (size_t k = 0; k < sizeof(Elem); ++k) if (p[k] != (unsigned char)(vh::mix(salt, k) & 0xff)) return false; return true; }

struct Range { const unsigned char* lo; const unsigned char* hi; int block; };

// visit every element of every sub-block through the library's viewers (const or not)
template <class MB, class... Defs, size_t... I>
void forBlocks(MB& mb, const std::vector<long>& counts, std::index_sequence<I...>, bool constView,
               const std::function<void(int, unsigned char*, size_t, uint64_t)>& onElem) {
    auto one = [&](auto idxc) {
        constexpr size_t B = decltype(idxc)::value;
        using Def = std::tuple_element_t<B, std::tuple<Defs...>>;
        using K = Kind<Def>;
        const long items = K::scalar ? 1 : counts[B];
        auto visit = [&](auto&& viewer) {
            for (long i = 0; i < items; ++i) for (long r = 0; r < K::rows; ++r) {
                auto& e = K::at(viewer, i, r);
                onElem(int(B), const_cast<unsigned char*>(reinterpret_cast<const unsigned char*>(&e)), sizeof(e), uint64_t(B) * 1000003 + uint64_t(i) * 31 + uint64_t(r));
            }
        };
        if (constView) visit(static_cast<const MB&>(mb).template getViewerForBlockConst<long(B)>());
        else visit(mb.template getViewerForBlock<long(B)>());
    };
    (one(std::integral_constant<size_t, I>{}), ...);
}

enum Action { CHECK_PATTERN, WRITE_PATTERN, CHECK_ZERO };

template <class... Defs> void testLayout(const std::string& layoutName, const std::vector<long>& counts, const std::vector<long>& smaller, uint64_t salt, Result& res) {
    using MB = TbfMemoryBlock<Defs...>;
    constexpr size_t NB = sizeof...(Defs);
    const std::string tag = "c14";
    auto seq = std::make_index_sequence<NB>{};
    auto sizesArr = [&](const std::vector<long>& v) { std::array<long, NB> a; for (size_t i = 0; i < NB; ++i) a[i] = v[i]; return a; };

    // walk all elements: inside [base, base+size), below the trailer, sub-blocks pairwise disjoint; then the action
    auto walk = [&](MB& mb, const std::vector<long>& cnt, const unsigned char* base, size_t size, bool constView, Action act, uint64_t s2, const std::string& what) {
        std::vector<Range> ranges(NB, Range{nullptr, nullptr, -1});
        const unsigned char* trailer = base + size - 2 * sizeof(long) * NB;
        long elems = 0;
        forBlocks<MB, Defs...>(mb, cnt, seq, constView, [&](int b, unsigned char* p, size_t sz, uint64_t es) {
            ++elems;
            if (p < base || p + sz > base + size) res.fail(tag + ":element-outside-buffer", layoutName + " " + what + " block " + vh::str(b));
            else if (p + sz > trailer) res.fail(tag + ":element-overlaps-trailer", layoutName + " " + what + " block " + vh::str(b));
            else {
                if (act == WRITE_PATTERN) for (size_t k = 0; k < sz; ++k) p[k] = (unsigned char)(vh::mix(s2 + es, k) & 0xff);
                else if (act == CHECK_PATTERN) { for (size_t k = 0; k < sz; ++k) if (p[k] != (unsigned char)(vh::mix(s2 + es, k) & 0xff)) { res.fail(tag + ":element-value", layoutName + " " + what + " block " + vh::str(b)); break; } }
                else { for (size_t k = 0; k < sz; ++k) if (p[k]) { res.fail(tag + ":element-not-zero", layoutName + " " + what + " block " + vh::str(b)); break; } }
            }
            auto& r = ranges[size_t(b)]; if (!r.lo || p < r.lo) r.lo = p; if (!r.hi || p + sz > r.hi) r.hi = p + sz; r.block = b;
        });
        std::vector<Range> used; for (auto& r : ranges) if (r.lo) used.push_back(r);
        std::sort(used.begin(), used.end(), [](const Range& a, const Range& b) { return a.lo < b.lo; });
        for (size_t i = 1; i < used.size(); ++i) if (used[i].lo < used[i - 1].hi) res.fail(tag + ":blocks-overlap", layoutName + " " + what + " blocks " + vh::str(used[i - 1].block) + " and " + vh::str(used[i].block));
        res.ev("elements-checked", elems);
    };

    MB mb(sizesArr(counts));
    const size_t size = size_t(mb.getAllocatedMemorySizeInByte());
    walk(mb, counts, mb.getPtr(), size, true, CHECK_ZERO, 0, "fresh");
    walk(mb, counts, mb.getPtr(), size, false, WRITE_PATTERN, salt, "write");
    walk(mb, counts, mb.getPtr(), size, true, CHECK_PATTERN, salt, "read-const");
    walk(mb, counts, mb.getPtr(), size, false, CHECK_PATTERN, salt, "read");
    // byte copy into an allocation of exactly the reported size (ASan red zone right behind), raw-memory constructor
    unsigned char* copy = static_cast<unsigned char*>(malloc(size));
    memcpy(copy, mb.getPtr(), size);
    {
        MB view(copy, long(size));
        if (view.getAllocatedMemorySizeInByte() != long(size)) res.fail(tag + ":view-size", layoutName);
        walk(view, counts, copy, size, false, CHECK_PATTERN, salt, "view");
        walk(view, counts, copy, size, true, CHECK_PATTERN, salt, "view-const");
    }
    free(copy); // the view must not have freed it (double free would be reported)
    // move construction / assignment keep the content and empty the source
    MB moved(std::move(mb));
    walk(moved, counts, moved.getPtr(), size, true, CHECK_PATTERN, salt, "move-constructed");
    if (mb.getPtr() != nullptr || !mb.isEmpty()) res.fail(tag + ":moved-from-not-empty", layoutName);
    MB assigned(sizesArr(smaller));
    assigned = std::move(moved);
    walk(assigned, counts, assigned.getPtr(), size, true, CHECK_PATTERN, salt, "move-assigned");
    // buffer reuse after shrinking: the trailer then sits at the end of the old, larger allocation
    assigned.resetBlocksFromSizes(sizesArr(smaller));
    const size_t size2 = size_t(assigned.getAllocatedMemorySizeInByte());
    walk(assigned, smaller, assigned.getPtr(), size2, true, CHECK_ZERO, 0, "after-shrink");
    walk(assigned, smaller, assigned.getPtr(), size2, false, WRITE_PATTERN, salt + 1, "after-shrink-write");
    unsigned char* copy2 = static_cast<unsigned char*>(malloc(size2));
    memcpy(copy2, assigned.getPtr(), size2);
    { MB view2(copy2, long(size2)); walk(view2, smaller, copy2, size2, true, CHECK_PATTERN, salt + 1, "after-shrink-view"); }
    free(copy2);
    // growing again reallocates
    assigned.resetBlocksFromSizes(sizesArr(counts));
    walk(assigned, counts, assigned.getPtr(), size_t(assigned.getAllocatedMemorySizeInByte()), true, CHECK_ZERO, 0, "after-regrow");
    // growing beyond the current allocation: an owning block frees its buffer and allocates a larger one
    {
        std::vector<long> bigger = counts; for (auto& b : bigger) if (b != 1) b = b * 2 + 3;   // (a count of 1 may be a scalar block, whose count is fixed)
        bool grows = false; for (size_t i = 0; i < bigger.size(); ++i) grows = grows || bigger[i] != counts[i];
        walk(assigned, counts, assigned.getPtr(), size_t(assigned.getAllocatedMemorySizeInByte()), false, WRITE_PATTERN, salt + 2, "before-outgrow-write");
        assigned.resetBlocksFromSizes(sizesArr(bigger));
        const size_t size3 = size_t(assigned.getAllocatedMemorySizeInByte());
        if (size3 < size) res.fail(tag + ":outgrown-block-smaller-than-before", layoutName);
        if (grows) res.ev("outgrown-layouts");
        walk(assigned, bigger, assigned.getPtr(), size3, true, CHECK_ZERO, 0, "after-outgrow");
        walk(assigned, bigger, assigned.getPtr(), size3, false, WRITE_PATTERN, salt + 3, "after-outgrow-write");
        unsigned char* copy3 = static_cast<unsigned char*>(malloc(size3));
        memcpy(copy3, assigned.getPtr(), size3);
        { MB view3(copy3, long(size3)); walk(view3, bigger, copy3, size3, true, CHECK_PATTERN, salt + 3, "after-outgrow-view"); }
        free(copy3);
    }
    // histories after a move: the two moved-from objects (mb: by move construction, moved: by move assignment) are reused as
    // ordinary blocks - same sizes, smaller sizes, then larger ones - and must behave like freshly built ones
    {
        int which = 0;
        for (MB* old : {&mb, &moved}) {
            const std::vector<long>& first = (which == 0) ? counts : smaller;
            const std::vector<long>& second = (which == 0) ? smaller : counts;
            for (const std::vector<long>* cnt : {&first, &second}) {
                old->resetBlocksFromSizes(sizesArr(*cnt));
                const size_t sz = size_t(old->getAllocatedMemorySizeInByte());
                const std::string what = std::string(which == 0 ? "moved-from(constructed)" : "moved-from(assigned)") + "-reused";
                if (old->getPtr() == nullptr) { res.fail(tag + ":reused-block-without-buffer", layoutName + " " + what); break; }
                walk(*old, *cnt, old->getPtr(), sz, true, CHECK_ZERO, 0, what);
                walk(*old, *cnt, old->getPtr(), sz, false, WRITE_PATTERN, salt + 7 + uint64_t(which), what + "-write");
                unsigned char* cp = static_cast<unsigned char*>(malloc(sz));
                memcpy(cp, old->getPtr(), sz);
                { MB v(cp, long(sz)); walk(v, *cnt, cp, sz, true, CHECK_PATTERN, salt + 7 + uint64_t(which), what + "-view"); }
                free(cp);
                res.ev("moved-from-blocks-reused");
            }
            ++which;
        }
    }
    res.ev("layouts-exercised");
}

long countNear(vh::Rng& r, size_t elemSize, long maxN) {
    // counts that end a row exactly on / one element past a 64-byte boundary, plus 0, 1 and random ones
    const int k = int(r.below(6));
    if (k == 0) return 0;
    if (k == 1) return 1;
    if (k == 2 || k == 3) { const long per = std::max<long>(1, long(64 / std::max<size_t>(1, elemSize))); const long m = 1 + long(r.below(uint64_t(std::max<long>(1, maxN / per)))); return std::min(maxN, m * per + (k == 3 ? 1 : 0)); }
    if (k == 4) return long(r.below(uint64_t(std::min<long>(maxN, 40)) + 1));
    return long(r.below(uint64_t(maxN) + 1));
}

#define LAYOUT(NAME, MAXN, ...) \
    { const char* nm = NAME; std::vector<long> c, s; const std::vector<size_t> es = elemSizes<__VA_ARGS__>(); const std::vector<bool> sc = scalars<__VA_ARGS__>(); \
      for (size_t i = 0; i < es.size(); ++i) { const long n = sc[i] ? 1 : countNear(r, es[i], MAXN); c.push_back(n); s.push_back(sc[i] ? 1 : long(r.below(uint64_t(n) + 1))); } \
      res.desc += std::string(nm) + " counts=" + vh::astr(c) + " then shrunk to " + vh::astr(s) + "; "; \
      testLayout<__VA_ARGS__>(nm, c, s, vh::mix(seed, ++salt), res); }

template <class... Defs> std::vector<size_t> elemSizes() { return {sizeof(typename Kind<Defs>::Elem)...}; }
template <class... Defs> std::vector<bool> scalars() { return {Kind<Defs>::scalar...}; }

void runLayouts(long kk, uint64_t seed, bool th, Result& res) {
    vh::Rng r(vh::mix(seed ^ 0xC14, uint64_t(kk)));
    uint64_t salt = uint64_t(kk) * 100;
    const long big = th ? 10000 : 2000;
    switch (kk % 8) {
    case 0:
        LAYOUT("vec<1B>", big, TbfMemoryVector<Bytes<1>>)
        LAYOUT("vec<3B>", big, TbfMemoryVector<Bytes<3>>)
        LAYOUT("vec<7B>", big, TbfMemoryVector<Bytes<7>>)
        LAYOUT("vec<63B>", 2000, TbfMemoryVector<Bytes<63>>)
        LAYOUT("vec<65B>", 2000, TbfMemoryVector<Bytes<65>>)
        break;
    case 1:
        LAYOUT("scalar<24B>+vec<long>", big, TbfMemoryScalar<Bytes<24>>, TbfMemoryVector<long>)
        LAYOUT("scalar<100B>+vec<12B>+vec<double>", big, TbfMemoryScalar<Bytes<100>>, TbfMemoryVector<Bytes<12>>, TbfMemoryVector<double>)
        LAYOUT("vec<1000B>", 300, TbfMemoryVector<Bytes<1000>>)
        LAYOUT("vec<4096B>", 100, TbfMemoryVector<Bytes<4096>>)
        break;
    case 2:
        LAYOUT("rows<double,3>", big, TbfMemoryMultiRVector<double, 3>)
        LAYOUT("rows<float,7>", big, TbfMemoryMultiRVector<float, 7>)
        LAYOUT("rows<1B,5>", big, TbfMemoryMultiRVector<Bytes<1>, 5>)
        LAYOUT("rows<2B,2>", big, TbfMemoryMultiRVector<Bytes<2>, 2>)
        LAYOUT("rows<128B,3>", 800, TbfMemoryMultiRVector<Bytes<128>, 3>)
        LAYOUT("rows<256B,2>", 400, TbfMemoryMultiRVector<Bytes<256>, 2>)
        break;
    case 3:
        LAYOUT("cols<double,3>", big, TbfMemoryMultiVVector<double, 3>)
        LAYOUT("cols<4B,9>", big, TbfMemoryMultiVVector<Bytes<4>, 9>)
        LAYOUT("cols<16B,5>", 2000, TbfMemoryMultiVVector<Bytes<16>, 5>)
        LAYOUT("cols<32B,2>", 2000, TbfMemoryMultiVVector<Bytes<32>, 2>)
        LAYOUT("cols<64B,3>", 1000, TbfMemoryMultiVVector<Bytes<64>, 3>)
        break;
    case 4:
        LAYOUT("particle-like: scalar<32B>+vec<48B>+vec<long>+rows<double,4>", big, TbfMemoryScalar<Bytes<32>>, TbfMemoryVector<Bytes<48>>, TbfMemoryVector<long>, TbfMemoryMultiRVector<double, 4>)
        LAYOUT("particle-like float: scalar<32B>+vec<40B>+vec<long>+rows<float,6>", big, TbfMemoryScalar<Bytes<32>>, TbfMemoryVector<Bytes<40>>, TbfMemoryVector<long>, TbfMemoryMultiRVector<float, 6>)
        break;
    case 5:
        LAYOUT("cell-like: scalar<24B>+vec<32B>", big, TbfMemoryScalar<Bytes<24>>, TbfMemoryVector<Bytes<32>>)
        LAYOUT("vec<8B>+vec<16B>+vec<24B>+vec<2B>", big, TbfMemoryVector<Bytes<8>>, TbfMemoryVector<Bytes<16>>, TbfMemoryVector<Bytes<24>>, TbfMemoryVector<Bytes<2>>)
        // sub-blocks with different alignment template arguments (multiples of 8, so that long/double stay aligned wherever a block starts)
        LAYOUT("mixed alignment 8/8/64/8: scalar<24B>+vec<long>+vec<12B>+vec<double>", big, TbfMemoryScalar<Bytes<24>, 8>, TbfMemoryVector<long, 8>, TbfMemoryVector<Bytes<12>, 64>, TbfMemoryVector<double, 8>)
        break;
    case 6:
        LAYOUT("rows<8B,2>+cols<8B,3>+vec<7B>", big, TbfMemoryMultiRVector<Bytes<8>, 2>, TbfMemoryMultiVVector<Bytes<8>, 3>, TbfMemoryVector<Bytes<7>>)
        LAYOUT("vec<65B>+rows<64B,2>+scalar<1B>+vec<1B>", 1500, TbfMemoryVector<Bytes<65>>, TbfMemoryMultiRVector<Bytes<64>, 2>, TbfMemoryScalar<Bytes<1>>, TbfMemoryVector<Bytes<1>>)
        LAYOUT("mixed alignment 16/128/8: vec<3B>+rows<8B,2>+vec<7B>", big, TbfMemoryVector<Bytes<3>, 16>, TbfMemoryMultiRVector<Bytes<8>, 2, 128>, TbfMemoryVector<Bytes<7>, 8>)
        break;
    default:
        LAYOUT("rows<4B,1>", big, TbfMemoryMultiRVector<Bytes<4>, 1>)
        LAYOUT("rows<32B,4>+rows<16B,3>", 2000, TbfMemoryMultiRVector<Bytes<32>, 4>, TbfMemoryMultiRVector<Bytes<16>, 3>)
        LAYOUT("scalar<4096B>", 1, TbfMemoryScalar<Bytes<4096>>)
        LAYOUT("vec<100B>+cols<1B,64>", 1500, TbfMemoryVector<Bytes<100>>, TbfMemoryMultiVVector<Bytes<1>, 64>)
        LAYOUT("mixed alignment 64/8/32/256: vec<65B>+vec<1B>+cols<4B,3>+scalar<9B>", 1500, TbfMemoryVector<Bytes<65>, 64>, TbfMemoryVector<Bytes<1>, 8>, TbfMemoryMultiVVector<Bytes<4>, 3, 32>, TbfMemoryScalar<Bytes<9>, 256>)
        break;
    }
    res.sig = "layouts:" + vh::str(kk); res.nontrivial = true;
}

//================================================================================================ Part B: groups of real trees
template <class E> struct ViewTree {
    using CellGroup = typename E::PolyTree::CellGroupClass;
    using LeafGroup = typename E::PolyTree::LeafGroupClass;
    const typename E::Cfg& cfg; const typename E::Space space;
    std::vector<std::vector<CellGroup>> cells;
    std::vector<LeafGroup> parts;
    std::vector<std::pair<unsigned char*, size_t>> buffers;
    ViewTree(const typename E::Cfg& c) : cfg(c), space(c) {}
    ~ViewTree() { cells.clear(); parts.clear(); for (auto& b : buffers) free(b.first); }
    long getHeight() const { return cfg.getTreeHeight(); }
    const typename E::Cfg& getSpacialConfiguration() const { return cfg; }
    const typename E::Space& getSpacialSystem() const { return space; }
    auto& getCellGroupsAtLevel(long L) { return cells[size_t(L)]; }
    const auto& getCellGroupsAtLevel(long L) const { return cells[size_t(L)]; }
    auto& getLeafGroups() { return cells.back(); }
    const auto& getLeafGroups() const { return cells.back(); }
    auto& getParticleGroups() { return parts; }
    const auto& getParticleGroups() const { return parts; }
    unsigned char* dup(const unsigned char* p, size_t n) { unsigned char* c = static_cast<unsigned char*>(malloc(n ? n : 1)); if (n) memcpy(c, p, n); buffers.emplace_back(c, n); return c; }
};

template <class E> void runGroups(long kk, uint64_t seed, bool, Result& res) {
    constexpr int D = E::Cfg::Dim;
    using Real = typename E::Cfg::RealType;
    vh::Rng r(vh::mix(seed ^ 0xB14, uint64_t(kk) * 4 + D));
    auto c = fmm::randomConf<E>(r, vh::mix(seed, kk), 300, false, 1);
    res.desc = fmm::confDesc<E>(c) + " groups viewed through byte copies";
    const long N = long(c.parts.size());
    fmm::PolyRun<E, typename E::PolyKernel> pr; pr.build(c);
    auto& tree = *pr.tree;
    // byte copies of every group, viewed through the raw-memory constructors
    ViewTree<E> vt(*pr.cfg);
    vt.cells.resize(size_t(c.geo.H));
    long groups = 0;
    for (long L = 0; L < c.geo.H; ++L) for (auto& g : tree.getCellGroupsAtLevel(L)) {
        auto ps = g.getDataPtrsAndSizes();
        std::array<std::pair<unsigned char*, size_t>, 3> cp;
        for (int b = 0; b < 3; ++b) cp[b] = {vt.dup(ps[b].first, ps[b].second), ps[b].second};
        vt.cells[size_t(L)].emplace_back(cp);
        auto& v = vt.cells[size_t(L)].back();
        if (v.getNbCells() != g.getNbCells() || v.getStartingSpacialIndex() != g.getStartingSpacialIndex() || v.getEndingSpacialIndex() != g.getEndingSpacialIndex()) res.fail("c14:cell-view-header", "level " + vh::str(L));
        for (long i = 0; i < g.getNbCells(); ++i) {
            if (v.getCellSpacialIndex(i) != g.getCellSpacialIndex(i) || v.getCellBoxCoord(i) != g.getCellBoxCoord(i)) res.fail("c14:cell-view-accessor", "level " + vh::str(L) + " cell " + vh::str(i));
            const unsigned char* m = reinterpret_cast<const unsigned char*>(&v.getCellMultipole(i)); const unsigned char* l = reinterpret_cast<const unsigned char*>(&v.getCellLocal(i));
            if (m < cp[1].first || m + sizeof(typename E::PV) > cp[1].first + cp[1].second) res.fail("c14:cell-view-multipole-outside", "level " + vh::str(L));
            if (l < cp[2].first || l + sizeof(typename E::PV) > cp[2].first + cp[2].second) res.fail("c14:cell-view-local-outside", "level " + vh::str(L));
            if (v.getElementFromSpacialIndex(g.getCellSpacialIndex(i)).value_or(-1) != i) res.fail("c14:cell-view-lookup", "level " + vh::str(L));
        }
        ++groups;
    }
    for (auto& g : tree.getParticleGroups()) {
        auto ps = g.getDataPtrsAndSizes();
        std::array<std::pair<unsigned char*, size_t>, 2> cp;
        for (int b = 0; b < 2; ++b) cp[b] = {vt.dup(ps[b].first, ps[b].second), ps[b].second};
        vt.parts.emplace_back(cp);
        auto& v = vt.parts.back();
        if (v.getNbLeaves() != g.getNbLeaves() || v.getNbParticles() != g.getNbParticles()) res.fail("c14:particle-view-header", "");
        for (long i = 0; i < g.getNbLeaves(); ++i) {
            if (v.getLeafSpacialIndex(i) != g.getLeafSpacialIndex(i) || v.getNbParticlesInLeaf(i) != g.getNbParticlesInLeaf(i) || v.getLeafBoxCoord(i) != g.getLeafBoxCoord(i)) res.fail("c14:particle-view-accessor", "leaf " + vh::str(i));
            const long n = g.getNbParticlesInLeaf(i);
            const auto da = g.getParticleData(i); const auto db = v.getParticleData(i);
            for (int val = 0; val < E::NV; ++val) {
                if (std::memcmp(da[val], db[val], sizeof(Real) * size_t(n)) != 0) res.fail("c14:particle-view-data", "leaf " + vh::str(i));
                const unsigned char* p = reinterpret_cast<const unsigned char*>(db[val]);
                if (p < cp[0].first || p + sizeof(Real) * size_t(n) > cp[0].first + cp[0].second) res.fail("c14:particle-view-data-outside", "leaf " + vh::str(i));
            }
            if (std::memcmp(g.getParticleIndexes(i), v.getParticleIndexes(i), sizeof(long) * size_t(n)) != 0) res.fail("c14:particle-view-indexes", "leaf " + vh::str(i));
            const unsigned char* rp = reinterpret_cast<const unsigned char*>(v.getParticleRhs(i)[0]);
            if (rp < cp[1].first || rp + sizeof(uint64_t) * size_t(n) > cp[1].first + cp[1].second) res.fail("c14:particle-view-rhs-outside", "leaf " + vh::str(i));
        }
        ++groups;
    }
    // operators on the originals and on the views must leave identical bytes
    TbfAlgorithm<Real, typename E::PolyKernel, typename E::Space> algo(*pr.cfg, c.upper);
    algo.execute(tree);
    TbfAlgorithm<Real, typename E::PolyKernel, typename E::Space> algo2(*pr.cfg, c.upper);
    algo2.execute(vt);
    size_t bi = 0; long bytes = 0;
    auto cmp = [&](const unsigned char* orig, size_t n, const char* what) {
        if (bi >= vt.buffers.size() || vt.buffers[bi].second != n || std::memcmp(orig, vt.buffers[bi].first, n) != 0) res.fail(std::string("c14:operators-on-view-differ:") + what, "buffer " + vh::str(bi));
        bytes += long(n); ++bi;
    };
    for (long L = 0; L < c.geo.H; ++L) for (auto& g : tree.getCellGroupsAtLevel(L)) { auto ps = g.getDataPtrsAndSizes(); cmp(ps[0].first, ps[0].second, "cell-symbolic"); cmp(ps[1].first, ps[1].second, "multipole"); cmp(ps[2].first, ps[2].second, "local"); }
    for (auto& g : tree.getParticleGroups()) { auto ps = g.getDataPtrsAndSizes(); cmp(ps[0].first, ps[0].second, "particle-symbolic"); cmp(ps[1].first, ps[1].second, "rhs"); }
    pr.reference(false, res); pr.compare(res, "c14:poly-direct-sum");
    res.ev("groups-viewed", groups); res.ev("bytes-compared", bytes);
    res.sig = fmm::confSig<E>(c, vh::mix(c.seed, 14)); res.nontrivial = N >= 2 && groups >= 2;
}

//================================================================================================ Part C: particle groups with several result rows
// kernel that writes a recognisable value into EVERY result row through the pointers the library hands to the operators
template <class RealT, class SpaceT> struct RowKernel {
    using SpaceIndexType = SpaceT; using SpacialConfiguration = typename SpaceT::ConfigurationClass; using RealType = RealT;
    explicit RowKernel(const SpacialConfiguration&) {}
    template <class H, class P, class M> void P2M(const H&, const long[], const P&, const long, M&) const {}
    template <class H, class C, class M> void M2M(const H&, const long, const C&, M&, const long[], const long) const {}
    template <class H, class C, class L> void M2L(const H&, const long, const C&, const long[], const long, L&) const {}
    template <class H, class L, class C> void L2L(const H&, const long, const L&, C&, const long[], const long) const {}
    template <class H, class L, class P, class R> void L2P(const H&, const L&, const long idx[], const P&, R& rhs, const long n) const {
        for (size_t v = 0; v < rhs.size(); ++v) for (long p = 0; p < n; ++p) rhs[v][p] += typename std::remove_reference<decltype(rhs[v][p])>::type((v + 1) * 1000 + idx[p] % 500);
    }
    template <class H, class P, class R> void P2P(const H&, const long[], const P&, R&, const long, const H&, const long[], const P&, R&, const long, const long) const {}
    template <class H, class P, class R> void P2PInner(const H&, const long idx[], const P&, R& rhs, const long n) const {
        for (size_t v = 0; v < rhs.size(); ++v) for (long p = 0; p < n; ++p) rhs[v][p] += typename std::remove_reference<decltype(rhs[v][p])>::type(7 * (v + 1));
        (void)idx;
    }
};

template <class Data, int NV, class Rhs, int NR> void runRows(long kk, uint64_t seed, Result& res) {
    constexpr int D = 3;
    using Real = Data;   // coordinates are stored in the data rows; keep them exactly representable
    using Space = tbx::Morton<Real, D, false>;
    using CellM = std::array<Data, NR + 1>;    // multipole and local parts of different byte sizes
    using CellL = std::array<Rhs, NV + 2>;
    using Tree = TbfTree<Real, Data, NV, Rhs, NR, CellM, CellL, Space>;
    using CellGroup = typename Tree::CellGroupClass;
    using Group = typename Tree::LeafGroupClass;
    vh::Rng r(vh::mix(seed ^ 0xC14C, uint64_t(kk) * 16 + NV * 4 + NR));
    const long H = r.range(1, 4);
    auto geo = tbx::genGeo<Real, D>(r, H, false);
    const tbx::Config<Real, D> cfg(H, geo.width, geo.center);
    const long N = 1 + long(r.below(r.coin(0.5) ? 12 : 200));   // small groups: row strides of data and result blocks differ for many counts
    const auto pos = tbx::genPositions<Real, D>(r, cfg, int(r.below(tbx::D_NB)), N);
    std::vector<std::array<Data, NV>> parts(static_cast<size_t>(N));
    for (long i = 0; i < N; ++i) { for (int d = 0; d < D; ++d) parts[size_t(i)][d] = Data(pos[size_t(i)][d]); for (int v = D; v < NV; ++v) parts[size_t(i)][v] = Data(i * 10 + v); }
    const auto bss = tbx::blockSizesFor(N, false);
    const long bs = bss[r.below(bss.size())];
    res.desc = std::string("particle groups with ") + vh::str(NV) + " data values (" + (sizeof(Data) == 4 ? "float" : "double") + ") and " + vh::str(NR) + " result values (" + vh::str(sizeof(Rhs)) + " bytes) height=" + vh::str(H) + " N=" + vh::str(N) + " blockSize=" + vh::str(bs);
    Tree tree(cfg, parts, bs, r.coin());
    long leaves = 0;
    auto checkGroup = [&](Group& g, const unsigned char* dataBase, size_t dataSize, const unsigned char* rhsBase, size_t rhsSize, const char* what) {
        const Group& cg = g;
        // pointers captured from applyToAllLeaves, leaf by leaf
        std::vector<std::array<const void*, size_t(NR > 0 ? NR : 1)>> rhsFromApply; std::vector<std::array<const void*, size_t(NV)>> dataFromApply; std::vector<const long*> idxFromApply;
        cg.applyToAllLeaves([&](auto&, const long* idx, auto&& d, auto&& rh) {
            std::array<const void*, size_t(NR > 0 ? NR : 1)> a{}; for (int v = 0; v < NR; ++v) a[size_t(v)] = rh[size_t(v)];
            std::array<const void*, size_t(NV)> b{}; for (int v = 0; v < NV; ++v) b[size_t(v)] = d[size_t(v)];
            rhsFromApply.push_back(a); dataFromApply.push_back(b); idxFromApply.push_back(idx);
        });
        for (long i = 0; i < g.getNbLeaves(); ++i) {
            const long n = g.getNbParticlesInLeaf(i);
            auto rn = g.getParticleRhs(i); const auto rc = cg.getParticleRhs(i);
            auto dn = g.getParticleData(i); const auto dc = cg.getParticleData(i);
            for (int v = 0; v < NR; ++v) {
                if ((const void*)rn[size_t(v)] != (const void*)rc[size_t(v)] || (const void*)rn[size_t(v)] != rhsFromApply[size_t(i)][size_t(v)]) res.fail("c14:rhs-accessors-disagree", std::string(what) + " leaf " + vh::str(i) + " row " + vh::str(v) + ": getParticleRhs() / const getParticleRhs() / applyToAllLeaves give different addresses");
                const unsigned char* p = reinterpret_cast<const unsigned char*>(rn[size_t(v)]);
                if (p < rhsBase || p + sizeof(Rhs) * size_t(n) > rhsBase + rhsSize - 2 * sizeof(long)) res.fail("c14:rhs-row-outside-buffer", std::string(what) + " leaf " + vh::str(i) + " row " + vh::str(v));
            }
            for (int v = 0; v < NV; ++v) {
                if ((const void*)dn[size_t(v)] != (const void*)dc[size_t(v)] || (const void*)dn[size_t(v)] != dataFromApply[size_t(i)][size_t(v)]) res.fail("c14:data-accessors-disagree", std::string(what) + " leaf " + vh::str(i) + " value " + vh::str(v));
                const unsigned char* p = reinterpret_cast<const unsigned char*>(dn[size_t(v)]);
                if (p < dataBase || p + sizeof(Data) * size_t(n) > dataBase + dataSize) res.fail("c14:data-row-outside-buffer", std::string(what) + " leaf " + vh::str(i));
            }
            if (g.getParticleIndexes(i) != cg.getParticleIndexes(i) || cg.getParticleIndexes(i) != idxFromApply[size_t(i)]) res.fail("c14:index-accessors-disagree", std::string(what) + " leaf " + vh::str(i));
            ++leaves;
        }
    };
    std::vector<std::pair<unsigned char*, size_t>> copies;
    for (auto& g : tree.getParticleGroups()) {
        auto ps = g.getDataPtrsAndSizes();
        checkGroup(g, ps[0].first, ps[0].second, ps[1].first, ps[1].second, "owner");
        std::array<std::pair<unsigned char*, size_t>, 2> cp;
        for (int b = 0; b < 2; ++b) { unsigned char* c = static_cast<unsigned char*>(malloc(ps[size_t(b)].second ? ps[size_t(b)].second : 1)); memcpy(c, ps[size_t(b)].first, ps[size_t(b)].second); cp[size_t(b)] = {c, ps[size_t(b)].second}; copies.push_back(cp[size_t(b)]); }
        Group view(cp);
        checkGroup(view, cp[0].first, cp[0].second, cp[1].first, cp[1].second, "view");
        // partial view over the data part only (as the task runtimes' callbacks build them): same leaves, indices and data; no result rows
        {
            Group dataOnly(cp[0].first, cp[0].second, nullptr, 0);
            const Group& cd = dataOnly;
            if (cd.getNbLeaves() != g.getNbLeaves() || cd.getNbParticles() != g.getNbParticles() || cd.getStartingSpacialIndex() != g.getStartingSpacialIndex() || cd.getEndingSpacialIndex() != g.getEndingSpacialIndex()) res.fail("c14:data-only-view-header", "particle group");
            else for (long i = 0; i < g.getNbLeaves(); ++i) {
                if (cd.getLeafSpacialIndex(i) != g.getLeafSpacialIndex(i) || cd.getNbParticlesInLeaf(i) != g.getNbParticlesInLeaf(i)) res.fail("c14:data-only-view-leaf", "leaf " + vh::str(i));
                const auto dv = cd.getParticleData(i); const auto dg = static_cast<const Group&>(g).getParticleData(i);
                for (int v = 0; v < NV; ++v) if (std::memcmp(dv[size_t(v)], dg[size_t(v)], sizeof(Data) * size_t(g.getNbParticlesInLeaf(i))) != 0) res.fail("c14:data-only-view-data", "leaf " + vh::str(i) + " value " + vh::str(v));
                if (std::memcmp(cd.getParticleIndexes(i), static_cast<const Group&>(g).getParticleIndexes(i), sizeof(long) * size_t(g.getNbParticlesInLeaf(i))) != 0) res.fail("c14:data-only-view-indexes", "leaf " + vh::str(i));
                const auto rv = cd.getParticleRhs(i); auto rn = dataOnly.getParticleRhs(i);
                for (int v = 0; v < NR; ++v) if (rv[size_t(v)] != nullptr || rn[size_t(v)] != nullptr) res.fail("c14:data-only-view-rhs-not-null", "leaf " + vh::str(i));
            }
            res.ev("partial-views-checked");
        }
    }
    for (auto& c : copies) free(c.first);
    // cell groups: recognisable content in every component, then byte-copied views through both view constructors
    tree.applyToAllCells([&](long L, auto& hdr, auto& m, auto& l) {
        for (size_t q = 0; q < m->get().size(); ++q) m->get()[q] = Data(1 + (hdr.spaceIndex * 7 + long(q) * 3 + L) % 1000);
        for (size_t q = 0; q < l->get().size(); ++q) l->get()[q] = Rhs(2 + (hdr.spaceIndex * 5 + long(q) * 11 + L) % 1000);
    });
    long cellViews = 0;
    for (long L = 0; L < H; ++L) for (auto& g : tree.getCellGroupsAtLevel(L)) {
        auto ps = g.getDataPtrsAndSizes();
        std::array<std::pair<unsigned char*, size_t>, 3> cp;
        for (int b = 0; b < 3; ++b) { unsigned char* c = static_cast<unsigned char*>(malloc(ps[size_t(b)].second ? ps[size_t(b)].second : 1)); memcpy(c, ps[size_t(b)].first, ps[size_t(b)].second); cp[size_t(b)] = {c, ps[size_t(b)].second}; }
        auto checkView = [&](CellGroup& v, const char* how) {
            if (v.getNbCells() != g.getNbCells() || v.getStartingSpacialIndex() != g.getStartingSpacialIndex() || v.getEndingSpacialIndex() != g.getEndingSpacialIndex()) { res.fail("c14:cell-view-header", std::string(how) + " level " + vh::str(L)); return; }
            for (long i = 0; i < g.getNbCells(); ++i) {
                if (v.getCellSpacialIndex(i) != g.getCellSpacialIndex(i)) res.fail("c14:cell-view-accessor", std::string(how) + " level " + vh::str(L) + " cell " + vh::str(i));
                const unsigned char* m = reinterpret_cast<const unsigned char*>(&v.getCellMultipole(i)); const unsigned char* l = reinterpret_cast<const unsigned char*>(&v.getCellLocal(i));
                const bool mIn = m >= cp[1].first && m + sizeof(CellM) <= cp[1].first + cp[1].second, lIn = l >= cp[2].first && l + sizeof(CellL) <= cp[2].first + cp[2].second;
                if (!mIn) res.fail("c14:cell-view-multipole-outside", std::string(how) + " level " + vh::str(L) + " cell " + vh::str(i));
                if (!lIn) res.fail("c14:cell-view-local-outside", std::string(how) + " level " + vh::str(L) + " cell " + vh::str(i));
                if (mIn && std::memcmp(m, &g.getCellMultipole(i), sizeof(CellM)) != 0) res.fail("c14:cell-view-multipole-value", std::string(how) + " level " + vh::str(L) + " cell " + vh::str(i));
                if (lIn && std::memcmp(l, &g.getCellLocal(i), sizeof(CellL)) != 0) res.fail("c14:cell-view-local-value", std::string(how) + " level " + vh::str(L) + " cell " + vh::str(i));
            }
            ++cellViews;
        };
        { CellGroup v(cp); checkView(v, "array-constructor view"); }
        { CellGroup v(cp[0].first, cp[0].second, cp[1].first, cp[1].second, cp[2].first, cp[2].second); checkView(v, "pointer/size-constructor view"); }
        { CellGroup v(cp); CellGroup w(std::move(v)); checkView(w, "moved view"); }
        {   // deferred view: the raw-memory constructor is told not to read the memory yet (inInitFromMemory = false), the bytes arrive
            // afterwards and initMemoryBlockHeader() derives the view from them - how a runtime with its own buffers uses the containers
            std::array<std::pair<unsigned char*, size_t>, 3> dp;
            for (int b = 0; b < 3; ++b) { dp[size_t(b)] = {static_cast<unsigned char*>(malloc(cp[size_t(b)].second ? cp[size_t(b)].second : 1)), cp[size_t(b)].second}; memset(dp[size_t(b)].first, 0xA5, dp[size_t(b)].second); }
            {
                CellGroup v(dp[0].first, dp[0].second, dp[1].first, dp[1].second, dp[2].first, dp[2].second, false);
                for (int b = 0; b < 3; ++b) memcpy(dp[size_t(b)].first, cp[size_t(b)].first, cp[size_t(b)].second);
                v.initMemoryBlockHeader();
                auto saved = cp; cp = dp;           // checkView compares addresses with the buffers the view was built on
                checkView(v, "deferred view (inInitFromMemory=false + initMemoryBlockHeader)");
                cp = saved;
                res.ev("deferred-views-checked");
            }
            for (auto& c : dp) free(c.first);
        }
        {   // partial view without the local part (upward-pass callbacks): header, indices and multipoles as in the original
            CellGroup v(cp[0].first, cp[0].second, cp[1].first, cp[1].second, nullptr, 0);
            if (v.getNbCells() != g.getNbCells() || v.getStartingSpacialIndex() != g.getStartingSpacialIndex()) res.fail("c14:partial-cell-view-header", "level " + vh::str(L));
            else for (long i = 0; i < g.getNbCells(); ++i) {
                if (v.getCellSpacialIndex(i) != g.getCellSpacialIndex(i)) res.fail("c14:partial-cell-view-accessor", "level " + vh::str(L));
                if (std::memcmp(&v.getCellMultipole(i), &g.getCellMultipole(i), sizeof(CellM)) != 0) res.fail("c14:partial-cell-view-multipole", "level " + vh::str(L) + " cell " + vh::str(i));
            }
            res.ev("partial-views-checked");
        }
        for (auto& c : cp) free(c.first);
    }
    res.ev("cell-group-views-checked", cellViews);
    // every result row written through the operators' pointers must be read back through applyToAllLeaves
    if constexpr (NR > 0) {
        TbfAlgorithm<Real, RowKernel<Real, Space>, Space> algo(cfg, 2);
        algo.execute(tree);
        tree.applyToAllLeaves([&](auto& hdr, const long* idx, auto&&, auto&& rhs) {
            for (int v = 0; v < NR; ++v) for (long p = 0; p < hdr.nbParticles; ++p) {
                const Rhs want = Rhs((H > 2 ? (v + 1) * 1000 + idx[p] % 500 : 0) + 7 * (v + 1));
                if (rhs[size_t(v)][p] != want) { res.fail("c14:result-row-written-elsewhere", "row " + vh::str(v) + " particle " + vh::str(idx[p]) + " got " + vh::str(double(rhs[size_t(v)][p])) + " expected " + vh::str(double(want))); return; }
            }
        });
        res.ev("row-kernel-runs");
    }
    res.ev("leaf-accessor-sets-checked", leaves);
    res.sig = "rows:" + vh::str(NV) + "," + vh::str(NR) + "," + vh::str(sizeof(Data)) + "," + vh::str(sizeof(Rhs)) + "," + vh::str(kk); res.nontrivial = N >= 2;
}

} // namespace

int main(int argc, char** argv) {
    vh::Mode m; m.name = "c14";
    m.count = [](bool th) { return th ? 9000L : 720L; };
    m.run = [](long k, uint64_t seed, bool th, Result& r) {
        const long nLayouts = th ? 3000 : 240;
        const long nGroups = th ? 3000 : 240;
        if (k < nLayouts) { runLayouts(k, seed, th, r); r.desc = "[c14-layouts #" + std::to_string(k) + "] " + r.desc; }
        else if (k >= nLayouts + nGroups) {
            const long kk = k - nLayouts - nGroups;
            switch (kk % 5) {
            case 0: runRows<double, 4, double, 3>(kk, seed, r); break;
            case 1: runRows<double, 4, float, 3>(kk, seed, r); break;
            case 2: runRows<float, 5, double, 2>(kk, seed, r); break;
            case 3: runRows<double, 3, long, 4>(kk, seed, r); break;
            default: runRows<float, 6, float, 4>(kk, seed, r); break;
            }
            r.desc = "[c14-rows #" + std::to_string(k) + "] " + r.desc;
        }
        else {
            const long kk = k - nLayouts;
            switch (kk % 4) {
            case 0: runGroups<fmm::Env<double, 3, false>>(kk, seed, th, r); break;
            case 1: runGroups<fmm::Env<double, 2, false>>(kk, seed, th, r); break;
            case 2: runGroups<fmm::Env<double, 1, false>>(kk, seed, th, r); break;
            default: runGroups<fmm::Env<double, 3, true>>(kk, seed, th, r); break;
            }
            r.desc = "[c14-groups #" + std::to_string(k) + "] " + r.desc;
        }
        extern long vh_bounds_checks(); r.ev("viewer-bounds-hook-checks", vh_bounds_checks());
    };
    return vh::harness_main(argc, argv, {m});
}
long vh_bounds_checks() {
#ifdef TBFMM_VERIF
    static long last = 0; const long now = TbfVerif::BoundsChecksCounter().load(); const long d = now - last; last = now; return d;
#else
    return 0;
#endif
}
