// C19: one program per documented template configuration. Macros select the cell of the matrix:
//   VC_DIM 1..4, VC_REALF 0 double / 1 float, VC_ORD 0 Morton / 1 periodic Morton / 2 Hilbert (Dim 3),
//   VC_AUTO 1 automatic block size, VC_REBUILD 1 with rebuild cycles, VC_EXEC 0 sequential / 1 OpenMP (shim) / 2 target-source / 3 OpenMP target-source (shim),
//   VC_VARIANT 0 data type == coordinate type, 1 data type != coordinate type, 2 zero result values (void_data)
// The program runs the C01 / C06 / C13 oracles of the other engines on a seeded sample of trees of that configuration.
#include "sched_core.hpp"
#include "per_core.hpp"
#include "tree_modes.hpp"
#include "spacial/tbfhilbertspaceindex.hpp"

#if VC_REALF
using Real = float; using Other = double;
#else
using Real = double; using Other = float;
#endif
constexpr int D = VC_DIM;
#if VC_ORD == 0
using Space = tbx::Morton<Real, D, false>;
#elif VC_ORD == 1
using Space = tbx::Morton<Real, D, true>;
#else
using Space = TbfHilbertSpaceIndex<3, TbfSpacialConfiguration<Real, 3>, false>;
#endif
using E = fmm::Env<Real, D, (VC_ORD == 1), Space>;

namespace {
using vh::Result;

// cell-only counting kernel for trees without result values: exactly-once is then read from the leaf locals
template <class RealT, class SpaceT> struct CellCount {
    using SpaceIndexType = SpaceT; using SpacialConfiguration = typename SpaceT::ConfigurationClass; using RealType = RealT;
    explicit CellCount(const SpacialConfiguration&) {}
    template <class H, class P, class M> void P2M(const H&, const long[], const P&, const long n, M& m) const { m[0] += n; }
    template <class H, class C, class M> void M2M(const H&, const long, const C& ch, M& up, const long[], const long n) const { for (long k = 0; k < n; ++k) up[0] += ch[k].get()[0]; }
    template <class H, class C, class L> void M2L(const H&, const long, const C& s, const long[], const long n, L& l) const { for (long k = 0; k < n; ++k) l[0] += s[k].get()[0]; }
    template <class H, class L, class C> void L2L(const H&, const long, const L& up, C& ch, const long[], const long n) const { for (long k = 0; k < n; ++k) ch[k].get()[0] += up[0]; }
    template <class H, class L, class P, class R> void L2P(const H&, const L&, const long[], const P&, R&, const long) const {}
    template <class H, class P, class R> void P2P(const H&, const long[], const P&, R&, const long, const H&, const long[], const P&, R&, const long, const long) const {}
    template <class H, class P, class R> void P2PInner(const H&, const long[], const P&, R&, const long) const {}
};

std::string cellName() {
    return std::string("Dim") + vh::str(VC_DIM) + (VC_REALF ? ",float" : ",double") + (VC_ORD == 0 ? ",morton" : VC_ORD == 1 ? ",periodic-morton" : ",hilbert") + (VC_AUTO ? ",auto-block" : ",explicit-block")
         + (VC_REBUILD ? ",rebuild" : ",no-rebuild") + (VC_EXEC == 0 ? ",sequential" : VC_EXEC == 1 ? ",openmp" : VC_EXEC == 2 ? ",target-source" : ",openmp-target-source") + (VC_VARIANT == 1 ? ",data!=real" : VC_VARIANT == 2 ? ",zero-rhs" : "");
}

void runCase(long kk, uint64_t seed, bool th, Result& res) {
    tbx::forcedBlockSize() = VC_AUTO ? -1 : 0;
    const uint64_t s2 = vh::mix(seed, 0xC19 + VC_DIM * 131 + VC_REALF * 17 + VC_ORD * 7 + VC_EXEC * 3 + VC_VARIANT);
    const int part = int(kk % 3);
#if VC_VARIANT == 0
    using F = tr::Flavour<Real, D, D + 1, Real, Real, 1, Space>;
#elif VC_VARIANT == 1
    using F = tr::Flavour<Real, D, D + 1, Other, long, 1, Space>;
#else
    using F = tr::Flavour<Real, D, D, Real, void_data, 0, Space>;
#endif
    if (part == 0) {
        // C06: construction
        static const auto seg = tr::c06Segment<F>(1, 1);
        seg.run(kk, s2, th, res);
    } else if (part == 1) {
        // C01: exactly-once through the configured executor
#if VC_VARIANT == 0
#if VC_EXEC == 0
#if VC_ORD == 2
        { vh::Rng r(vh::mix(s2, kk)); auto c = fmm::randomConf<E>(r, vh::mix(s2, kk), vp::PSET_N); res.desc = fmm::confDesc<E>(c); bool nt = false; uint64_t occ = 0; fmm::runSetC01<E>(c, res, nt, occ, false); res.nontrivial = nt; res.sig = fmm::confSig<E>(c, occ); }
#else
        static const auto seg = fmm::c01RandomSegment<E>(1, 1);
        seg.run(kk, s2, th, res);
#if VC_ORD == 1
        { static const auto segp = fmm::c10Segment<E>(1, 1); Result r2; segp.run(kk * 3, s2, th, r2); for (auto& v : r2.violations) res.fail(v.first, v.second); for (auto& e : r2.events) res.events[e.first] += e.second; }
#endif
#endif
#elif VC_EXEC == 1
#if VC_ORD == 2
        {   // Hilbert: per-pair counts only (the geometric parent/child clauses are the known finding of C11/C02)
            vh::Rng r(vh::mix(s2, kk)); auto c = fmm::randomConf<E>(r, vh::mix(s2, kk), vp::PSET_N); res.desc = fmm::confDesc<E>(c) + " executor=TbfOpenmpAlgorithm";
            const long N = long(c.parts.size());
            for (const auto& sd : sch::schedulesFor(r, false, 0)) {
                const typename E::Cfg cfg(c.geo.H, c.geo.width, c.geo.center);
                typename E::SetTree tree(cfg, c.parts, c.blockSize, c.oneGroupPerParent);
                vsched::configure(sd.threads, sd.policy, sd.seed);
                { auto algo = std::make_unique<TbfOpenmpAlgorithm<Real, typename E::SetKernel, Space>>(cfg, c.upper); algo->execute(tree); }
                tree.applyToAllLeaves([&](auto& hdr, const long* idx, auto&&, auto&& rhs) {
                    for (long p = 0; p < hdr.nbParticles; ++p) for (long j = 0; j < N; ++j) if (long(rhs[0][p][j]) != (idx[p] == j ? 0 : 1)) { res.fail("c19:pair-count", "target " + vh::str(idx[p]) + " source " + vh::str(j) + " got " + vh::str(rhs[0][p][j]) + " under " + sch::schedStr(sd)); return; }
                });
                res.ev("schedules-executed"); res.ev("pairs-checked", N * N);
            }
            res.nontrivial = N >= 2; res.sig = fmm::confSig<E>(c, vh::mix(c.seed, 3));
        }
#else
        static const auto seg = sch::c03Segment<E>(1, 1, false);
        seg.run(kk, s2, false, res);
#endif
#elif VC_EXEC == 3
#if VC_ORD == 2
        {   // Hilbert: per-pair counts through the OpenMP target/source executor under shim schedules
            vh::Rng r(vh::mix(s2, kk)); auto c = fmm::randomTsmConf<E>(r, vh::mix(s2, kk), 60, 1); res.desc = fmm::tsmDesc<E>(c) + " executor=TbfOpenmpAlgorithmTsm";
            bool nt = false;
            for (const auto& sd : sch::schedulesFor(r, false, 0)) {
                fmm::runSetTsm<E>(c, res, [&](auto& tree, const auto& cfg) { vsched::configure(sd.threads, sd.policy, sd.seed); auto a = std::make_unique<TbfOpenmpAlgorithmTsm<Real, typename E::SetKernel, Space>>(cfg, c.upper); a->execute(tree); }, nt, false);
                res.ev("schedules-executed");
            }
            res.nontrivial = nt; res.sig = "omp-tsm-hilbert:" + vh::str(vh::mix(c.seed, 4));
        }
#else
        static const auto seg = sch::c09OmpSegment<E>(1, 1, false);
        seg.run(kk, s2, false, res);
#endif
#else
#if VC_ORD == 2
        {
            vh::Rng r(vh::mix(s2, kk)); auto c = fmm::randomTsmConf<E>(r, vh::mix(s2, kk), 60, 1); res.desc = fmm::tsmDesc<E>(c) + " executor=TbfAlgorithmTsm";
            bool nt = false;
            fmm::runSetTsm<E>(c, res, [&](auto& tree, const auto& cfg) { TbfAlgorithmTsm<Real, typename E::SetKernel, Space> a(cfg, c.upper); a.execute(tree); }, nt, false);
            res.nontrivial = nt; res.sig = "tsm-hilbert:" + vh::str(vh::mix(c.seed, 4));
        }
#else
        static const auto seg = fmm::c09SeqSegment<E>(1, 1);
        seg.run(kk, s2, th, res);
#endif
#endif
#elif VC_VARIANT == 1
        // data type != coordinate type: counting kernel, every particle must see N-1 (3^D N - 1 with the periodic ordering alone)
        {
            vh::Rng r(vh::mix(s2, kk)); auto in = tr::randomInput<F>(r, vh::mix(s2, kk), 200, false);
            res.desc = tr::inputDesc<F>(in) + " counting kernel";
            const typename F::Cfg cfg(in.geo.H, in.geo.width, in.geo.center);
            typename F::Tree tree(cfg, in.parts, in.blockSize, in.ogp);
            TbfAlgorithm<Real, TbfTestKernel<Real, Space>, Space> algo(cfg, Space::IsPeriodic ? 1 : 2);
            algo.execute(tree);
            const long N = long(in.parts.size());
            const long per = Space::IsPeriodic ? (N * long(vm::box<D>(1).size()) - 1) : (N - 1);
            tree.applyToAllLeaves([&](auto& hdr, const long* idx, auto&&, auto&& rhs) { for (long p = 0; p < hdr.nbParticles; ++p) if (rhs[0][p] != per) { res.fail("c19:counting-kernel", "particle " + vh::str(idx[p]) + " got " + vh::str(rhs[0][p]) + " expected " + vh::str(per)); return; } });
            res.ev("pairs-checked", N * N); res.sig = tr::treeSig<F>(in, tree); res.nontrivial = N >= 2;
        }
#else
        // zero result values: exactly-once read from the leaf locals of a cell-only counting kernel
        {
            vh::Rng r(vh::mix(s2, kk)); auto in = tr::randomInput<F>(r, vh::mix(s2, kk), 200, false);
            res.desc = tr::inputDesc<F>(in) + " cell-only counting kernel (no result values)";
            const typename F::Cfg cfg(in.geo.H, in.geo.width, in.geo.center);
            typename F::Tree tree(cfg, in.parts, in.blockSize, in.ogp);
            TbfAlgorithm<Real, CellCount<Real, Space>, Space> algo(cfg, Space::IsPeriodic ? 1 : 2);
            algo.execute(tree);
            const long N = long(in.parts.size());
            std::map<vm::Coord<D>, long> perLeaf;
            bool ok = true; const auto leafOf = tbx::leafOfParticle<D>(tree, N, &ok);
            for (auto& c : leafOf) perLeaf[c] += 1;
            const long H = in.geo.H;
            tree.applyToAllCells([&](long L, auto& hdr, auto&, auto& l) {
                if (L != H - 1) return;
                vm::Coord<D> c; for (int d = 0; d < D; ++d) c[d] = hdr.boxCoord[d];
                long near = 0;
                for (const auto& o : vm::box<D>(1)) { vm::Coord<D> s = vm::add<D>(c, o); if (Space::IsPeriodic) s = vm::wrapTo<D>(s, H - 1); else if (!vm::inRange<D>(s, H - 1)) continue; auto it = perLeaf.find(s); if (it != perLeaf.end()) near += it->second; }
                const long total = Space::IsPeriodic ? N * long(vm::box<D>(1).size()) : N;
                const long far = (H > (Space::IsPeriodic ? 1 : 2)) ? l->get()[0] : 0;
                const long expectFar = (H > (Space::IsPeriodic ? 1 : 2)) ? total - near : 0;
                if (far != expectFar) res.fail("c19:far-field-count", "leaf " + vh::astr(c) + " local counts " + vh::str(far) + " expected " + vh::str(expectFar));
            });
            res.ev("pairs-checked", N * N); res.sig = tr::treeSig<F>(in, tree); res.nontrivial = N >= 2;
        }
#endif
    } else {
#if VC_REBUILD
        static const auto seg = tr::c13Segment<F>(1, 1);
        seg.run(kk, s2, th, res);
#else
        static const auto seg = tr::c07Segment<F>(1, 1);
        seg.run(kk * 4, s2, th, res); // structure of the built tree (no rebuild in this cell)
#endif
    }
    res.desc = "[" + cellName() + "] " + res.desc;
    res.sig = cellName() + ":" + res.sig;
    res.ev("cell-cases");
}
} // namespace

int main(int argc, char** argv) {
    vh::Mode m; m.name = "c19";
    m.count = [](bool th) { return th ? 45L : 12L; };
    m.run = [](long k, uint64_t seed, bool th, vh::Result& r) { runCase(k, seed, th, r); };
    return vh::harness_main(argc, argv, {m});
}
