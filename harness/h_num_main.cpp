#include "common.hpp"
#include <map>
namespace num { struct Segment { std::string name; std::function<long(bool)> count; std::function<void(long, uint64_t, bool, vh::Result&)> run; }; }
void vh_num_segments_p2p(std::map<std::string, std::vector<num::Segment>>&);
#define R(p, f) void vh_num_segments_rot##p##_##f(std::map<std::string, std::vector<num::Segment>>&);
#define U(o, f) void vh_num_segments_unif##o##_##f(std::map<std::string, std::vector<num::Segment>>&);
R(4,0) R(6,0) R(8,0) R(12,0) R(4,1) R(8,1)
U(3,0) U(4,0) U(5,0) U(6,0) U(7,0) U(8,0) U(3,1) U(5,1)
int main(int argc, char** argv) {
    std::map<std::string, std::vector<num::Segment>> segs;
    vh_num_segments_p2p(segs);
    vh_num_segments_rot4_0(segs); vh_num_segments_rot6_0(segs); vh_num_segments_rot8_0(segs); vh_num_segments_rot12_0(segs); vh_num_segments_rot4_1(segs); vh_num_segments_rot8_1(segs);
    vh_num_segments_unif3_0(segs); vh_num_segments_unif4_0(segs); vh_num_segments_unif5_0(segs); vh_num_segments_unif6_0(segs); vh_num_segments_unif7_0(segs); vh_num_segments_unif8_0(segs);
    vh_num_segments_unif3_1(segs); vh_num_segments_unif5_1(segs);
    std::vector<vh::Mode> modes;
    for (auto& kv : segs) {
        auto list = kv.second;
        vh::Mode m; m.name = kv.first;
        m.count = [list](bool th) { long n = 0; for (auto& s : list) n += s.count(th); return n; };
        m.run = [list](long k, uint64_t seed, bool th, vh::Result& r) {
            for (auto& s : list) { const long c = s.count(th); if (k < c) { s.run(k, seed, th, r); r.desc = "[" + s.name + " #" + std::to_string(k) + "] " + r.desc; return; } k -= c; }
            r.skipped = true; r.skipReason = "out of range";
        };
        modes.push_back(m);
    }
    return vh::harness_main(argc, argv, modes);
}
