// Periodic mode (C10): periodic ordering + periodic top tree, single tree and target/source, sequential executors.
#ifndef VH_PER_CORE_HPP
#define VH_PER_CORE_HPP

#include <functional>
#include "tsm_core.hpp"
#include "algorithms/periodic/tbfalgorithmperiodictoptree.hpp"
#include "algorithms/periodic/tbfalgorithmperiodictoptreetsm.hpp"

namespace fmm {

template <class Top, int D> bool intervalOf(const Top& top, long& lo, long& hi, Result& res, const std::string& tag) {
    const auto iv = top.getRepetitionsIntervals();
    lo = iv.first[0]; hi = iv.second[0];
    for (int d = 1; d < D; ++d) if (iv.first[d] != lo || iv.second[d] != hi) { res.fail(tag + ":interval-not-cubic", ""); return false; }
    const long reps = top.getNbRepetitionsPerDim();
    if (reps != hi - lo + 1) res.fail(tag + ":repetition-count-vs-interval", "getNbRepetitionsPerDim=" + vh::str(reps) + " interval [" + vh::str(lo) + "," + vh::str(hi) + "]");
    long tot = 1; for (int d = 0; d < D; ++d) tot *= reps;
    if (top.getNbTotalRepetitions() != tot) res.fail(tag + ":total-repetitions", vh::str(top.getNbTotalRepetitions()) + " vs " + vh::str(tot));
    return true;
}

// set by the case runner: run the top tree as three flagged calls instead of one
inline bool& topTreeStaged() { static bool b = false; return b; }
template <class A, class B, class C> using SeqAlgo = TbfAlgorithm<A, B, C>;
// executor abstraction: runs the documented four-call sequence
template <class E, template <class, class, class> class Algo> void periodicSingle(const Conf<E>& c, long extra, Result& res, const char* tag, const std::function<void(vp::RecCtx<E::Cfg::Dim>&)>& setup = nullptr, const std::function<void()>& beforeExecute = nullptr) {
    constexpr int D = E::Cfg::Dim;
    using Real = typename E::Cfg::RealType;
    using namespace TbfAlgorithmUtils;
    const long N = long(c.parts.size());
    PolyRun<E, typename E::CheckedPoly> pr; pr.build(c);
    vp::RecCtx<D> rc; fillRecCtx<E>(rc, *pr.tree, *pr.cfg, &c.parts, &c.parts);
    if (setup) setup(rc);
    E::CheckedPoly::globalCtx() = &rc;
    const uint64_t h0 = tbx::hashSymbolic(*pr.tree);
    long lo = 0, hi = 0;
    {
        auto algo = std::make_unique<Algo<Real, typename E::CheckedPoly, typename E::Space>>(*pr.cfg, TbfDefaultLastLevelPeriodic);
        auto top = std::make_unique<TbfAlgorithmPeriodicTopTree<Real, typename E::CheckedPoly, typename E::PV, typename E::PV, typename E::Space>>(*pr.cfg, extra);
        if (beforeExecute) beforeExecute();
        algo->execute(*pr.tree, TbfBottomToTopStages);
        rc.beginTop(extra);
        if (topTreeStaged()) {   // the top tree takes operator flags too: its three stages one call each, and the flags it has no stage for (no-ops)
            top->execute(*pr.tree, TbfP2M | TbfP2P | TbfL2P); top->execute(*pr.tree, TbfM2M); top->execute(*pr.tree, TbfM2L); top->execute(*pr.tree, TbfL2L);
            res.ev("top-tree-staged-runs");
        } else top->execute(*pr.tree);
        rc.topTree = false;
        if (beforeExecute) beforeExecute();
        algo->execute(*pr.tree, TbfTransferStages);
        if (beforeExecute) beforeExecute();
        algo->execute(*pr.tree, TbfTopToBottomStages);
        if (!intervalOf<decltype(*top), D>(*top, lo, hi, res, tag)) return;
    }
    if (tbx::hashSymbolic(*pr.tree) != h0) res.fail("c06:symbolic-changed-by-execute", "periodic sequence");
    drainRec<D>(rc, res, std::string(tag) + ":");
    pr.reference(false, res, lo, hi);
    // a top tree run as several flagged calls must end like the one-call run, i.e. on the exact image sum: keyed apart, C12 judges it too
    pr.compare(res, std::string(tag) + (topTreeStaged() ? ":staged-top-tree:poly-image-sum" : ":poly-image-sum"));
    res.ev("periodic-runs"); res.ev("image-pairs-checked", N * N * (hi - lo + 1));
    res.events["max-repetitions-per-dim"] = std::max<long long>(res.events["max-repetitions-per-dim"], hi - lo + 1);
}

template <class E> void periodicCounting(const Conf<E>& c, long extra, Result& res, const char* tag) {
    constexpr int D = E::Cfg::Dim;
    using Real = typename E::Cfg::RealType;
    using namespace TbfAlgorithmUtils;
    using Cell = std::array<long, 1>;
    using Tree = TbfTree<Real, Real, E::NV, long, 1, Cell, Cell, typename E::Space>;
    using K = TbfTestKernel<Real, typename E::Space>;
    const long N = long(c.parts.size());
    const typename E::Cfg cfg(c.geo.H, c.geo.width, c.geo.center);
    Tree tree(cfg, c.parts, c.blockSize, c.oneGroupPerParent);
    TbfAlgorithm<Real, K, typename E::Space> algo(cfg, TbfDefaultLastLevelPeriodic);
    TbfAlgorithmPeriodicTopTree<Real, K, Cell, Cell, typename E::Space> top(cfg, extra);
    algo.execute(tree, TbfBottomToTopStages); top.execute(tree); algo.execute(tree, TbfTransferStages); algo.execute(tree, TbfTopToBottomStages);
    long lo, hi; if (!intervalOf<decltype(top), D>(top, lo, hi, res, tag)) return;
    long tot = 1; for (int d = 0; d < D; ++d) tot *= (hi - lo + 1);
    tree.applyToAllLeaves([&](auto& hdr, const long* idx, auto&&, auto&& rhs) {
        for (long p = 0; p < hdr.nbParticles; ++p) if (rhs[0][p] != tot * N - 1) { res.fail(std::string(tag) + ":counting-kernel", "particle " + vh::str(idx[p]) + " got " + vh::str(rhs[0][p]) + " expected " + vh::str(tot * N - 1)); return; }
    });
    res.ev("counting-runs");
}

template <class A, class B, class C> using SeqAlgoTsm = TbfAlgorithmTsm<A, B, C>;
template <class E, template <class, class, class> class AlgoTsm = SeqAlgoTsm> void periodicTsm(const TsmConf<E>& c, long extra, Result& res, const char* tag, const std::function<void(vp::RecCtx<E::Cfg::Dim>&)>& setup = nullptr, const std::function<void()>& beforeExecute = nullptr) {
    constexpr int D = E::Cfg::Dim;
    using Real = typename E::Cfg::RealType;
    using namespace TbfAlgorithmUtils;
    TsmPolyRun<E> pr; pr.build(c);
    vp::RecCtx<D> rc; pr.fillRec(rc, c);
    if (setup) setup(rc);
    E::CheckedPoly::globalCtx() = &rc;
    long lo = 0, hi = 0;
    {
        auto algo = std::make_unique<AlgoTsm<Real, typename E::CheckedPoly, typename E::Space>>(*pr.cfg, TbfDefaultLastLevelPeriodic);
        auto top = std::make_unique<TbfAlgorithmPeriodicTopTreeTsm<Real, typename E::CheckedPoly, typename E::PV, typename E::PV, typename E::Space>>(*pr.cfg, extra);
        if (beforeExecute) beforeExecute();
        algo->execute(*pr.tree, TbfBottomToTopStages);
        rc.beginTop(extra);
        if (topTreeStaged()) {
            top->execute(*pr.tree, TbfP2M | TbfP2P | TbfL2P); top->execute(*pr.tree, TbfM2M); top->execute(*pr.tree, TbfM2L); top->execute(*pr.tree, TbfL2L);
            res.ev("top-tree-staged-runs");
        } else top->execute(*pr.tree);
        rc.topTree = false;
        if (beforeExecute) beforeExecute();
        algo->execute(*pr.tree, TbfTransferStages);
        if (beforeExecute) beforeExecute();
        algo->execute(*pr.tree, TbfTopToBottomStages);
        if (!intervalOf<decltype(*top), D>(*top, lo, hi, res, tag)) return;
    }
    drainRec<D>(rc, res, std::string(tag) + ":");
    pr.reference(lo, hi);
    pr.compare(res, std::string(tag) + (topTreeStaged() ? ":staged-top-tree:poly-image-sum" : ":poly-image-sum"));
    res.ev("periodic-tsm-runs");
}

template <class E> Segment c10Segment(long nQ, long nT) {
    constexpr int D = E::Cfg::Dim;
    Segment s; s.name = std::string("c10-seq-D") + vh::str(D);
    s.count = [=](bool th) { return th ? nT : nQ; };
    s.run = [=](long kk, uint64_t seed, bool th, Result& res) {
        vh::Rng r(vh::mix(seed ^ 0xC10, uint64_t(kk) * 4 + D));
        const long extraMax = D == 3 ? 3 : 5;
        const long extra = (kk % 7 == 0) ? extraMax : r.range(-1, th ? extraMax : std::min<long>(extraMax, 3));
        const int sub = int(kk % 3);
        topTreeStaged() = (kk % 4 == 1);
        if (sub != 2) {
            auto c = randomConf<E>(r, vh::mix(seed, kk), extra >= 4 ? 40 : 120, false, 2);
            if (r.coin(0.3)) { // particles on the periodic boundary faces
                const typename E::Cfg cfg(c.geo.H, c.geo.width, c.geo.center);
                c.parts = tbx::withExtras<typename E::Cfg::RealType, D, E::NV>(tbx::genPositions<typename E::Cfg::RealType, D>(r, cfg, tbx::D_BOXFACES, long(c.parts.size())), c.seed); c.dist = "boxfaces";
            }
            c.upper = 1;
            res.desc = confDesc<E>(c) + " extraLevels=" + vh::str(extra) + (sub == 0 ? " top-tree=single kernel=checked-poly" : " top-tree=single kernel=poly+counting");
            periodicSingle<E, SeqAlgo>(c, extra, res, "c10");
            if (sub == 1) periodicCounting<E>(c, extra, res, "c10");
            res.sig = "per:" + confSig<E>(c, vh::mix(c.seed, 5)) + ",x" + vh::str(extra); res.nontrivial = c.parts.size() >= 1;
        } else {
            auto c = randomTsmConf<E>(r, vh::mix(seed, kk), extra >= 4 ? 40 : 100, 2);
            c.upper = 1;
            res.desc = tsmDesc<E>(c) + " extraLevels=" + vh::str(extra) + " top-tree=target/source";
            periodicTsm<E>(c, extra, res, "c10");
            res.sig = "per-tsm:D" + vh::str(D) + "," + vh::str(vh::mix(c.seed, 6)) + ",x" + vh::str(extra); res.nontrivial = true;
        }
    };
    return s;
}

//================================================================================================ C08 on the periodic four-call sequence
// one periodic input, many groupings: the top tree gathers the level-1 cells across all level-1 groups, so the grouping reaches it too;
// results, in-tree expansions (and the direct image sum) must not depend on it. Alternately the single-tree and the target/source top tree.
template <class E> Segment c08PeriodicSegment(long nQ, long nT) {
    constexpr int D = E::Cfg::Dim;
    using Real = typename E::Cfg::RealType;
    Segment s; s.name = std::string("c08-periodic-D") + vh::str(D);
    s.count = [=](bool th) { return th ? nT : nQ; };
    s.run = [=](long kk, uint64_t seed, bool th, Result& res) {
        using namespace TbfAlgorithmUtils;
        vh::Rng r(vh::mix(seed ^ 0xC08B, uint64_t(kk) * 4 + D));
        const long extra = r.range(-1, D == 3 ? 2 : 3);
        long groupings = 0;
        if (kk % 2 == 0) {
            auto c = randomConf<E>(r, vh::mix(seed, kk), th ? 200 : 100, false, 2);
            c.upper = 1;
            const long N = long(c.parts.size());
            std::vector<long> bss = tbx::blockSizesFor(N, N <= 10);
            if (!th && bss.size() > 7) { std::vector<long> k2(bss.begin(), bss.begin() + 4); k2.insert(k2.end(), bss.end() - 3, bss.end()); bss = k2; }
            bss.push_back(-1);
            res.desc = confDesc<E>(c) + " extraLevels=" + vh::str(extra) + " top-tree=single groupings=" + vh::str(bss.size() * 2);
            bool haveRef = false; TreeBytes<typename E::PolyTree, typename E::PV> ref; std::string refName;
            for (long bs : bss) for (int ogp = 0; ogp < 2; ++ogp) {
                Conf<E> cc = c; cc.blockSize = bs; cc.oneGroupPerParent = ogp;
                PolyRun<E, typename E::PolyKernel> pr; pr.build(cc);
                long lo = 0, hi = 0;
                {
                    auto algo = std::make_unique<TbfAlgorithm<Real, typename E::PolyKernel, typename E::Space>>(*pr.cfg, TbfDefaultLastLevelPeriodic);
                    auto top = std::make_unique<TbfAlgorithmPeriodicTopTree<Real, typename E::PolyKernel, typename E::PV, typename E::PV, typename E::Space>>(*pr.cfg, extra);
                    algo->execute(*pr.tree, TbfBottomToTopStages); top->execute(*pr.tree); algo->execute(*pr.tree, TbfTransferStages); algo->execute(*pr.tree, TbfTopToBottomStages);
                    if (!intervalOf<decltype(*top), D>(*top, lo, hi, res, "c08:periodic")) return;
                }
                const auto got = snapshotTree<E>(*pr.tree, N);
                const std::string name = "bs=" + vh::str(bs) + ",ogp=" + vh::str(ogp);
                if (!haveRef) { haveRef = true; ref = got; refName = name; pr.reference(false, res, lo, hi); pr.compare(res, "c08:periodic:poly-image-sum"); }
                else {
                    if (got.rhs != ref.rhs) res.fail("c08:periodic:results-differ", name + " vs " + refName + " extraLevels=" + vh::str(extra));
                    if (got.cells != ref.cells) res.fail("c08:periodic:expansions-differ", name + " vs " + refName + " extraLevels=" + vh::str(extra));
                }
                ++groupings;
            }
            res.sig = "c08per:" + confSig<E>(c, vh::mix(c.seed, 8)) + ",x" + vh::str(extra); res.nontrivial = N >= 2;
        } else {
            auto c = randomTsmConf<E>(r, vh::mix(seed, kk), th ? 160 : 80, 2);
            c.upper = 1;
            const long nl = long(std::max(c.src.size(), c.tgt.size()));
            std::vector<long> bss = tbx::blockSizesFor(nl, nl <= 10);
            if (!th && bss.size() > 7) { std::vector<long> k2(bss.begin(), bss.begin() + 4); k2.insert(k2.end(), bss.end() - 3, bss.end()); bss = k2; }
            bss.push_back(-1);
            res.desc = tsmDesc<E>(c) + " extraLevels=" + vh::str(extra) + " top-tree=target/source groupings=" + vh::str(bss.size() * 2);
            bool haveRef = false; typename TsmPolyRun<E>::Snap ref; std::string refName;
            for (long bs : bss) for (int ogp = 0; ogp < 2; ++ogp) {
                TsmConf<E> cc = c; cc.blockSize = bs; cc.ogp = ogp;
                TsmPolyRun<E> pr; pr.build(cc);
                long lo = 0, hi = 0;
                {
                    auto algo = std::make_unique<TbfAlgorithmTsm<Real, typename E::PolyKernel, typename E::Space>>(*pr.cfg, TbfDefaultLastLevelPeriodic);
                    auto top = std::make_unique<TbfAlgorithmPeriodicTopTreeTsm<Real, typename E::PolyKernel, typename E::PV, typename E::PV, typename E::Space>>(*pr.cfg, extra);
                    algo->execute(*pr.tree, TbfBottomToTopStages); top->execute(*pr.tree); algo->execute(*pr.tree, TbfTransferStages); algo->execute(*pr.tree, TbfTopToBottomStages);
                    if (!intervalOf<decltype(*top), D>(*top, lo, hi, res, "c08:periodic")) return;
                }
                const auto got = pr.snapshot();
                const std::string name = "bs=" + vh::str(bs) + ",ogp=" + vh::str(ogp);
                if (!haveRef) { haveRef = true; ref = got; refName = name; pr.reference(lo, hi); pr.compare(res, "c08:periodic:poly-image-sum"); }
                else {
                    if (got.rhs != ref.rhs) res.fail("c08:periodic:results-differ", "target/source " + name + " vs " + refName + " extraLevels=" + vh::str(extra));
                    if (got.m != ref.m || got.l != ref.l) res.fail("c08:periodic:expansions-differ", "target/source " + name + " vs " + refName + " extraLevels=" + vh::str(extra));
                }
                ++groupings;
            }
            res.sig = "c08per-tsm:D" + vh::str(D) + "," + vh::str(vh::mix(c.seed, 9)) + ",x" + vh::str(extra); res.nontrivial = true;
        }
        res.ev("groupings", groupings); res.ev("periodic-groupings", groupings);
    };
    return s;
}

//================================================================================================ C09 sequential
template <class E> Segment c09SeqSegment(long nQ, long nT) {
    constexpr int D = E::Cfg::Dim;
    using Real = typename E::Cfg::RealType;
    Segment s; s.name = std::string("c09-seq-") + E::orderingName() + "-D" + vh::str(D);
    s.count = [=](bool th) { return th ? nT : nQ; };
    s.run = [=](long kk, uint64_t seed, bool, Result& res) {
        vh::Rng r(vh::mix(seed ^ 0xC09, uint64_t(kk) * 4 + D));
        auto c = randomTsmConf<E>(r, vh::mix(seed, kk), kk % 2 ? 60 : 120, E::Space::IsPeriodic ? 2 : 1);
        res.desc = tsmDesc<E>(c) + " executor=TbfAlgorithmTsm";
        bool nt = false;
        if (c.src.size() <= size_t(vp::PSET_N))
            runSetTsm<E>(c, res, [&](auto& tree, const auto& cfg) { TbfAlgorithmTsm<Real, typename E::SetKernel, typename E::Space> a(cfg, c.upper); a.execute(tree); }, nt);
        {
            TsmPolyRun<E> pr; pr.build(c);
            vp::RecCtx<D> rc; pr.fillRec(rc, c); E::CheckedPoly::globalCtx() = &rc;
            const auto before = pr.snapshot();
            { auto a = std::make_unique<TbfAlgorithmTsm<Real, typename E::CheckedPoly, typename E::Space>>(*pr.cfg, c.upper); a->execute(*pr.tree); }
            const auto after = pr.snapshot();
            if (before.symbolic != after.symbolic) res.fail("c06:symbolic-changed-by-execute", "target/source executor");
            drainRec<D>(rc, res, "c09:");
            pr.reference(); pr.compare(res, "c09:poly-direct-sum");
            bool o1, o2; const auto ls = leafOfSrc<D>(*pr.tree, pr.Ns, &o1); const auto lt = leafOfTgt<D>(*pr.tree, pr.Nt, &o2);
            vm::Cells<D> cs, ct; cs.build(c.geo.H, tbx::leafSet<D>(ls)); ct.build(c.geo.H, tbx::leafSet<D>(lt));
            compareElems<D>(rc.elems, vm::expectedElemsTsm<D>(cs, ct, E::Space::IsPeriodic, c.upper), res, "c09:events");
            nt = nt || rc.calls[vm::OP_M2L] + rc.calls[vm::OP_P2PTSM] > 0;
        }
        res.sig = std::string("tsm-seq:D") + vh::str(D) + E::orderingName() + "," + vh::str(vh::mix(c.seed, 7)); res.nontrivial = nt;
    };
    return s;
}

} // namespace fmm
#endif
