// Probe kernels: ordinary user kernels (templates over the argument types the library passes).
//  PSet  : exact per-source-particle counts (small N)            -> names the lost/duplicated pair
//  PPoly : exact polynomial kernel over Z/2^64 with geometry       -> sensitive to levels and position codes
//  Checked<Inner> : argument checker + event recorder (P-rec) wrapping any kernel
// None of this includes a tbfmm header.
#ifndef VH_PROBES_HPP
#define VH_PROBES_HPP

#include "common.hpp"
#include "model.hpp"

#include <mutex>
#include <atomic>
#include <unordered_map>
#include <cmath>
#include <memory>

namespace vp {

using vm::Coord;

//============================================================================================ PSet
constexpr int PSET_N = 128;
using SetVec = std::array<uint16_t, PSET_N>;

template <class RealType, class SpaceIndexType_T>
class PSet {
public:
    using SpaceIndexType = SpaceIndexType_T;
    static constexpr int Dim = SpaceIndexType::Dim;
    using SpacialConfiguration = typename SpaceIndexType::ConfigurationClass;
    explicit PSet(const SpacialConfiguration&) {}
    PSet(const PSet&) = default;

    template <class H, class P, class M>
    void P2M(const H&, const long idx[], const P&, const long n, M& m) const {
        for (long i = 0; i < n; ++i) m[idx[i]] += 1;
    }
    template <class H, class C, class M>
    void M2M(const H&, const long, const C& ch, M& up, const long[], const long n) const {
        for (long k = 0; k < n; ++k) { const auto& c = ch[k].get(); for (int i = 0; i < PSET_N; ++i) up[i] += c[i]; }
    }
    template <class H, class C, class L>
    void M2L(const H&, const long, const C& src, const long[], const long n, L& loc) const {
        for (long k = 0; k < n; ++k) { const auto& c = src[k].get(); for (int i = 0; i < PSET_N; ++i) loc[i] += c[i]; }
    }
    template <class H, class L, class C>
    void L2L(const H&, const long, const L& up, C& ch, const long[], const long n) const {
        for (long k = 0; k < n; ++k) { auto& c = ch[k].get(); for (int i = 0; i < PSET_N; ++i) c[i] += up[i]; }
    }
    template <class H, class L, class P, class R>
    void L2P(const H&, const L& loc, const long[], const P&, R& rhs, const long n) const {
        for (long p = 0; p < n; ++p) for (int i = 0; i < PSET_N; ++i) rhs[0][p][i] += loc[i];
    }
    template <class H, class P, class R>
    void P2P(const H&, const long sidx[], const P&, R& srhs, const long ns,
             const H&, const long tidx[], const P&, R& trhs, const long nt, const long) const {
        for (long t = 0; t < nt; ++t) for (long s = 0; s < ns; ++s) { trhs[0][t][sidx[s]] += 1; srhs[0][s][tidx[t]] += 1; }
    }
    template <class HS, class PS, class HT, class PT, class R>
    void P2PTsm(const HS&, const long sidx[], const PS&, const long ns,
                const HT&, const long[], const PT&, R& trhs, const long nt, const long) const {
        for (long t = 0; t < nt; ++t) for (long s = 0; s < ns; ++s) trhs[0][t][sidx[s]] += 1;
    }
    template <class H, class P, class R>
    void P2PInner(const H&, const long idx[], const P&, R& rhs, const long n) const {
        for (long t = 0; t < n; ++t) for (long s = 0; s < n; ++s) if (s != t) rhs[0][t][idx[s]] += 1;
    }
};

//============================================================================================ PPoly
template <int D, int DEG> struct Mono {
    static constexpr int count() { long n = 1; for (int i = 1; i <= DEG; ++i) n = n * (D + i) / i; return int(n); }
    static constexpr int N = count();
    std::array<std::array<int, D>, N> e{};
    // triples for M2L: L[g] += coef * T^t * M[b]
    struct Tri { int a, g, b; std::array<int, D> t; uint64_t mult; };
    std::vector<Tri> m2l;
    // pairs for recentring: out[hi] += binom * e^(hi-lo) * in[lo]   (M2M)   /  out[lo] += binom * e^(hi-lo) * in[hi] (L2L)
    struct Pair { int hi, lo; std::array<int, D> t; uint64_t binom; };
    std::vector<Pair> shift;
    int index(const std::array<int, D>& x) const { for (int i = 0; i < N; ++i) if (e[i] == x) return i; return -1; }
    static uint64_t binom(int n, int k) { uint64_t r = 1; for (int i = 1; i <= k; ++i) r = r * uint64_t(n - k + i) / uint64_t(i); return r; }
    Mono() {
        int n = 0;
        std::array<int, D> x; x.fill(0);
        // enumerate all exponent vectors with sum <= DEG
        std::function<void(int, int)> rec = [&](int d, int left) {
            if (d == D) { e[n++] = x; return; }
            for (int k = 0; k <= left; ++k) { x[d] = k; rec(d + 1, left - k); }
            x[d] = 0;
        };
        rec(0, DEG);
        for (int hi = 0; hi < N; ++hi) for (int lo = 0; lo < N; ++lo) {
            bool le = true; uint64_t b = 1; std::array<int, D> t;
            for (int d = 0; d < D; ++d) { if (e[lo][d] > e[hi][d]) le = false; else { b *= binom(e[hi][d], e[lo][d]); t[d] = e[hi][d] - e[lo][d]; } }
            if (le) shift.push_back({hi, lo, t, b});
        }
        for (int a = 0; a < N; ++a) for (int g = 0; g < N; ++g) for (int b = 0; b < N; ++b) {
            bool ok = true; uint64_t mult = 1; std::array<int, D> t; int sb = 0;
            for (int d = 0; d < D && ok; ++d) {
                const int td = e[a][d] - e[g][d] - e[b][d];
                if (td < 0) { ok = false; break; }
                t[d] = td;
                // multinomial a!/(g! b! t!)
                mult *= binom(e[a][d], e[g][d]) * binom(e[a][d] - e[g][d], e[b][d]);
                sb += e[b][d];
            }
            if (!ok) continue;
            if (sb & 1) mult = uint64_t(0) - mult;
            m2l.push_back({a, g, b, t, mult});
        }
    }
};

template <int D, int DEG> const Mono<D, DEG>& mono() { static const Mono<D, DEG> m; return m; }

template <int D, int DEG> struct PolyCtx {
    static constexpr int N = Mono<D, DEG>::N;
    std::array<uint64_t, N> coef{};          // kernel coefficients
    std::vector<Coord<D>> srcX, tgtX;        // doubled lattice coordinates by original index
    std::vector<uint64_t> srcW;              // source weights by original index
    std::vector<uint64_t> tgtW;              // weights of targets (== srcW for a single tree; used by mutual P2P)
    std::array<double, D> unit{};            // real length of one lattice step per dimension
    void initCoef(uint64_t seed) { vh::Rng r(seed); for (auto& c : coef) c = r.next() | 1ULL; }
    uint64_t K(const std::array<uint64_t, D>& r) const {
        const auto& m = mono<D, DEG>();
        uint64_t pw[D][DEG + 1];
        for (int d = 0; d < D; ++d) { pw[d][0] = 1; for (int k = 1; k <= DEG; ++k) pw[d][k] = pw[d][k - 1] * r[d]; }
        uint64_t s = 0;
        for (int a = 0; a < N; ++a) { uint64_t t = coef[a]; for (int d = 0; d < D; ++d) t *= pw[d][m.e[a][d]]; s += t; }
        return s;
    }
};

template <int D, int DEG> using PolyVec = std::array<uint64_t, Mono<D, DEG>::N>;

template <class RealType, class SpaceIndexType_T, int DEG>
class PPoly {
public:
    using SpaceIndexType = SpaceIndexType_T;
    static constexpr int Dim = SpaceIndexType::Dim;
    static constexpr int D = Dim;
    using SpacialConfiguration = typename SpaceIndexType::ConfigurationClass;
    using Ctx = PolyCtx<D, DEG>;
    static constexpr int N = Ctx::N;
    static const Ctx*& globalCtx() { static const Ctx* c = nullptr; return c; }

private:
    const Ctx* ctx;
    long height;
    std::vector<std::array<uint64_t, D>> cellW; // doubled cell width per level (modular, but positive and small)
    bool geometryOk = true;

    void pows(const std::array<uint64_t, D>& r, uint64_t pw[D][DEG + 1]) const {
        for (int d = 0; d < D; ++d) { pw[d][0] = 1; for (int k = 1; k <= DEG; ++k) pw[d][k] = pw[d][k - 1] * r[d]; }
    }
    template <class Hdr> std::array<uint64_t, D> leafCentre(const Hdr& h) const {
        std::array<uint64_t, D> c;
        for (int d = 0; d < D; ++d) c[d] = uint64_t(2 * h.boxCoord[d] + 1) * (cellW[height - 1][d] / 2);
        return c;
    }
    // centre(child) - centre(parent) for a child with the given position code below a parent at `level`
    std::array<uint64_t, D> childShift(long level, long code) const {
        std::array<uint64_t, D> s;
        const long lv = std::min<long>(std::max<long>(level + 1, 0), long(cellW.size()) - 1);
        for (int d = 0; d < D; ++d) {
            const uint64_t half = cellW[lv][d] / 2;
            const bool up = (code >> (D - 1 - d)) & 1L;
            s[d] = up ? half : uint64_t(0) - half;
        }
        return s;
    }

public:
    explicit PPoly(const SpacialConfiguration& cfg) : ctx(globalCtx()), height(cfg.getTreeHeight()) {
        cellW.resize(std::max<long>(height, 1));
        for (long L = 0; L < long(cellW.size()); ++L)
            for (int d = 0; d < D; ++d) {
                const double w2 = 2.0 * double(cfg.getBoxWidths()[d]) / ctx->unit[d];
                const long long iw = std::llround(w2);
                if (std::fabs(w2 - double(iw)) > 1e-3 * std::max(1.0, std::fabs(w2)) || (iw % (1LL << L)) != 0) geometryOk = false;
                cellW[L][d] = uint64_t(iw >> L);
            }
    }
    PPoly(const PPoly&) = default;
    bool geometryConsistent() const { return geometryOk; }

    template <class H, class P, class M>
    void P2M(const H& hdr, const long idx[], const P&, const long n, M& m) const {
        const auto& mo = mono<D, DEG>();
        const auto c = leafCentre(hdr);
        for (long i = 0; i < n; ++i) {
            std::array<uint64_t, D> b; uint64_t pw[D][DEG + 1];
            for (int d = 0; d < D; ++d) b[d] = uint64_t(ctx->srcX[idx[i]][d]) - c[d];
            pows(b, pw);
            for (int a = 0; a < N; ++a) { uint64_t t = ctx->srcW[idx[i]]; for (int d = 0; d < D; ++d) t *= pw[d][mo.e[a][d]]; m[a] += t; }
        }
    }
    template <class H, class C, class M>
    void M2M(const H&, const long level, const C& ch, M& up, const long pos[], const long n) const {
        const auto& mo = mono<D, DEG>();
        for (long k = 0; k < n; ++k) {
            const auto& c = ch[k].get();
            const auto e = childShift(level, pos[k]);
            uint64_t pw[D][DEG + 1]; pows(e, pw);
            for (const auto& p : mo.shift) { uint64_t t = p.binom * c[p.lo]; for (int d = 0; d < D; ++d) t *= pw[d][p.t[d]]; up[p.hi] += t; }
        }
    }
    template <class H, class C, class L>
    void M2L(const H&, const long level, const C& src, const long pos[], const long n, L& loc) const {
        const auto& mo = mono<D, DEG>();
        const long lv = std::min<long>(std::max<long>(level, 0), long(cellW.size()) - 1);
        for (long k = 0; k < n; ++k) {
            const auto& m = src[k].get();
            const auto o = vm::decode7<D>(pos[k]);
            std::array<uint64_t, D> T; // centre(target) - centre(source)
            for (int d = 0; d < D; ++d) T[d] = uint64_t(0) - uint64_t(o[d]) * cellW[lv][d];
            uint64_t pw[D][DEG + 1]; pows(T, pw);
            for (const auto& t : mo.m2l) { uint64_t v = ctx->coef[t.a] * t.mult * m[t.b]; for (int d = 0; d < D; ++d) v *= pw[d][t.t[d]]; loc[t.g] += v; }
        }
    }
    template <class H, class L, class C>
    void L2L(const H&, const long level, const L& up, C& ch, const long pos[], const long n) const {
        const auto& mo = mono<D, DEG>();
        for (long k = 0; k < n; ++k) {
            auto& c = ch[k].get();
            const auto e = childShift(level, pos[k]);
            uint64_t pw[D][DEG + 1]; pows(e, pw);
            for (const auto& p : mo.shift) { uint64_t t = p.binom * up[p.hi]; for (int d = 0; d < D; ++d) t *= pw[d][p.t[d]]; c[p.lo] += t; }
        }
    }
    template <class H, class L, class P, class R>
    void L2P(const H& hdr, const L& loc, const long idx[], const P&, R& rhs, const long n) const {
        const auto& mo = mono<D, DEG>();
        const auto c = leafCentre(hdr);
        for (long i = 0; i < n; ++i) {
            std::array<uint64_t, D> a; uint64_t pw[D][DEG + 1];
            for (int d = 0; d < D; ++d) a[d] = uint64_t(ctx->tgtX[idx[i]][d]) - c[d];
            pows(a, pw);
            uint64_t s = 0;
            for (int g = 0; g < N; ++g) { uint64_t t = loc[g]; for (int d = 0; d < D; ++d) t *= pw[d][mo.e[g][d]]; s += t; }
            rhs[0][i] += s;
        }
    }
    // image shift (doubled lattice units) of a source leaf reached with position code `code` from the target leaf
    template <class HS, class HT> std::array<uint64_t, D> imageShift(const HS& sh, const HT& th, long code) const {
        const auto o = vm::decode3<D>(code);
        std::array<uint64_t, D> s;
        for (int d = 0; d < D; ++d) s[d] = uint64_t((th.boxCoord[d] + o[d]) - sh.boxCoord[d]) * cellW[height - 1][d];
        return s;
    }
    template <class H, class P, class R>
    void P2P(const H& sh, const long sidx[], const P&, R& srhs, const long ns,
             const H& th, const long tidx[], const P&, R& trhs, const long nt, const long code) const {
        const auto sft = imageShift(sh, th, code);
        for (long t = 0; t < nt; ++t) for (long s = 0; s < ns; ++s) {
            std::array<uint64_t, D> r, rn;
            for (int d = 0; d < D; ++d) { r[d] = uint64_t(ctx->tgtX[tidx[t]][d]) - (uint64_t(ctx->srcX[sidx[s]][d]) + sft[d]); rn[d] = uint64_t(0) - r[d]; }
            trhs[0][t] += ctx->srcW[sidx[s]] * ctx->K(r);
            srhs[0][s] += ctx->tgtW[tidx[t]] * ctx->K(rn);
        }
    }
    template <class HS, class PS, class HT, class PT, class R>
    void P2PTsm(const HS& sh, const long sidx[], const PS&, const long ns,
                const HT& th, const long tidx[], const PT&, R& trhs, const long nt, const long code) const {
        const auto sft = imageShift(sh, th, code);
        for (long t = 0; t < nt; ++t) for (long s = 0; s < ns; ++s) {
            std::array<uint64_t, D> r;
            for (int d = 0; d < D; ++d) r[d] = uint64_t(ctx->tgtX[tidx[t]][d]) - (uint64_t(ctx->srcX[sidx[s]][d]) + sft[d]);
            trhs[0][t] += ctx->srcW[sidx[s]] * ctx->K(r);
        }
    }
    template <class H, class P, class R>
    void P2PInner(const H&, const long idx[], const P&, R& rhs, const long n) const {
        for (long t = 0; t < n; ++t) for (long s = 0; s < n; ++s) if (s != t) {
            std::array<uint64_t, D> r;
            for (int d = 0; d < D; ++d) r[d] = uint64_t(ctx->tgtX[idx[t]][d]) - uint64_t(ctx->srcX[idx[s]][d]);
            rhs[0][t] += ctx->srcW[idx[s]] * ctx->K(r);
        }
    }
};

//============================================================================================ Checked (P-rec)
// Shared recorder / checker state. Thread-safe (one mutex); the probes never touch library state.
struct CellId { long level; std::vector<long> coord; long tree; }; // tree: 0 single/source, 1 target

template <int D> struct RecCtx {
    std::mutex mu;
    long height = 0;
    bool periodic = false;
    bool hilbert = false;       // ordering without the Morton octant convention
    bool topTree = false;       // operator called by the periodic top tree (objects not in the tree)
    long topHeight = 0;         // extended height for the top tree
    long nbLevelsAbove0 = 0;
    // top tree: level at which each of its own (non-tree) expansion objects was produced, to tie the level argument of later calls to object identity
    std::unordered_map<const void*, long> topMultipoleLevel, topLocalLevel;
    void beginTop(long extra) { topTree = true; topHeight = extra + 5; nbLevelsAbove0 = extra; topMultipoleLevel.clear(); topLocalLevel.clear(); }
    bool record = true;
    std::unordered_map<const void*, CellId> multipoles, locals;
    std::function<long()> currentTask;   // task id provider (shim) or null
    std::function<long()> currentWorker; // worker id provider or null
    // particle oracle
    long nbSrc = 0, nbTgt = 0;
    std::function<bool(int tree, long idx, int v, const void* valuePtr)> dataEquals; // compares a data value with the input array
    std::function<bool(const Coord<D>& leaf, const long double* pos)> insideLeaf;     // containment with tolerance
    int nbDataValues = 0;
    // outputs
    std::vector<vm::Elem> elems;
    std::vector<std::pair<std::string, std::string>> violations;
    std::map<std::string, long long> counters;
    // access log for O-dag: per task id, objects read / written (cell-granular addresses)
    struct Access { long task; const void* obj; bool write; int kind; int op; };
    std::vector<Access> accesses;
    bool logAccesses = false;
    // calls per op
    std::array<long long, vm::OP_NB> calls{};

    void fail(const std::string& key, const std::string& detail) {
        for (auto& v : violations) if (v.first == key) return;
        if (violations.size() < 64) violations.emplace_back(key, detail);
    }
    long task() { return currentTask ? currentTask() : -1; }
    void access(const void* o, bool w, int kind, int op) { if (logAccesses) accesses.push_back({task(), o, w, kind, op}); }
};

template <class Inner, int D>
class Checked {
public:
    using SpaceIndexType = typename Inner::SpaceIndexType;
    using SpacialConfiguration = typename Inner::SpacialConfiguration;
    static constexpr int Dim = D;
    static RecCtx<D>*& globalCtx() { static RecCtx<D>* c = nullptr; return c; }
    static std::atomic<long>& copyCounter() { static std::atomic<long> c{0}; return c; }

private:
    Inner inner;
    RecCtx<D>* ctx;
    SpaceIndexType space;
    long copyId;
    mutable std::shared_ptr<std::atomic<long>> busy; // owner thread tag, per copy

    struct Guard {
        const Checked& k; bool entered = false;
        explicit Guard(const Checked& kk) : k(kk) {
            long expected = 0;
            if (!k.busy->compare_exchange_strong(expected, 1)) {
                std::lock_guard<std::mutex> g(k.ctx->mu);
                k.ctx->fail("kernel-instance-shared", "kernel copy " + vh::str(k.copyId) + " entered by two threads at once");
            } else entered = true;
            if (k.ctx->currentWorker) {
                const long w = k.ctx->currentWorker();
                std::lock_guard<std::mutex> g(k.ctx->mu);
                if (k.workerSeen < 0) k.workerSeen = w;
                else if (k.workerSeen != w) k.ctx->fail("kernel-instance-migrates", "kernel copy " + vh::str(k.copyId) + " used by workers " + vh::str(k.workerSeen) + " and " + vh::str(w));
            }
        }
        ~Guard() { if (entered) k.busy->store(0); }
    };
    mutable long workerSeen = -1;

    template <class Hdr> Coord<D> hc(const Hdr& h) const { Coord<D> c; for (int d = 0; d < D; ++d) c[d] = h.boxCoord[d]; return c; }

    template <class Hdr> void checkHeader(const Hdr& h, long level, const char* op) const {
        const auto dec = space.getBoxPosFromIndex(h.spaceIndex);
        for (int d = 0; d < D; ++d) if (dec[d] != h.boxCoord[d]) { ctx->fail(std::string("hdr-index-coord:") + op, "spaceIndex " + vh::str(h.spaceIndex) + " decodes to " + vh::astr(dec) + " header says " + vh::astr(h.boxCoord)); break; }
        if (level >= 0) for (int d = 0; d < D; ++d) if (h.boxCoord[d] < 0 || h.boxCoord[d] >= (1L << level)) { ctx->fail(std::string("hdr-coord-range:") + op, "coord " + vh::astr(h.boxCoord) + " at level " + vh::str(level)); break; }
    }
    template <class Hdr, class P> void checkParticles(int tree, const Hdr& h, const long idx[], const P& data, long n, const char* op) const {
        if (n < 1) ctx->fail(std::string("empty-particles:") + op, "n=" + vh::str(n));
        const long N = tree == 0 ? ctx->nbSrc : ctx->nbTgt;
        const Coord<D> leaf = hc(h);
        for (long i = 0; i < n; ++i) {
            if (idx[i] < 0 || idx[i] >= N) { ctx->fail(std::string("index-range:") + op, "idx " + vh::str(idx[i])); continue; }
            if (ctx->dataEquals) for (int v = 0; v < ctx->nbDataValues; ++v)
                if (!ctx->dataEquals(tree, idx[i], v, &data[v][i])) { ctx->fail(std::string("data-modified:") + op, "particle " + vh::str(idx[i]) + " value " + vh::str(v)); break; }
            if (ctx->insideLeaf) {
                long double p[D]; for (int d = 0; d < D; ++d) p[d] = (long double)data[d][i];
                if (!ctx->insideLeaf(leaf, p)) ctx->fail(std::string("particle-outside-leaf:") + op, "particle " + vh::str(idx[i]) + " leaf " + vh::astr(leaf));
            }
        }
        ctx->counters["particles-checked"] += n;
    }

public:
    explicit Checked(const SpacialConfiguration& cfg) : inner(cfg), ctx(globalCtx()), space(cfg), copyId(copyCounter()++), busy(std::make_shared<std::atomic<long>>(0)) {}
    Checked(const Checked& o) : inner(o.inner), ctx(o.ctx), space(o.space), copyId(copyCounter()++), busy(std::make_shared<std::atomic<long>>(0)) {}
    Checked& operator=(const Checked&) = delete;
    const Inner& getInner() const { return inner; }
    long getCopyId() const { return copyId; }

    template <class H, class P, class M>
    void P2M(const H& hdr, const long idx[], const P& data, const long n, M& m) const {
        Guard g(*this);
        {
            std::lock_guard<std::mutex> lk(ctx->mu);
            ctx->calls[vm::OP_P2M]++;
            checkHeader(hdr, ctx->height - 1, "P2M");
            checkParticles(0, hdr, idx, data, n, "P2M");
            auto it = ctx->multipoles.find(&m);
            if (it == ctx->multipoles.end()) ctx->fail("unknown-object:P2M", "multipole not in tree");
            else if (it->second.level != ctx->height - 1 || it->second.coord != vm::tov<D>(hc(hdr))) ctx->fail("wrong-object:P2M", "multipole of another cell");
            if (ctx->record) ctx->elems.push_back({vm::OP_P2M, ctx->height - 1, vm::tov<D>(hc(hdr)), {}, 0});
            ctx->access(&m, true, 0, vm::OP_P2M);
            ctx->access(idx, false, 3, vm::OP_P2M);
        }
        inner.P2M(hdr, idx, data, n, m);
    }

    template <class H, class C, class M>
    void M2M(const H& hdr, const long level, const C& ch, M& up, const long pos[], const long n) const {
        Guard g(*this);
        {
            std::lock_guard<std::mutex> lk(ctx->mu);
            ctx->calls[vm::OP_M2M]++;
            if (n < 1 || n > (1L << D)) ctx->fail("children-count:M2M", "n=" + vh::str(n));
            if (!ctx->topTree) {
                checkHeader(hdr, level, "M2M");
                auto pit = ctx->multipoles.find(&up);
                if (pit == ctx->multipoles.end()) ctx->fail("unknown-object:M2M", "parent multipole not in tree");
                else {
                    if (pit->second.level != level) ctx->fail("level-arg:M2M", "level argument " + vh::str(level) + " but parent is at level " + vh::str(pit->second.level));
                    if (pit->second.coord != vm::tov<D>(hc(hdr))) ctx->fail("wrong-object:M2M", "parent multipole does not belong to the header's cell");
                }
                std::set<const void*> seen;
                for (long k = 0; k < n; ++k) {
                    const void* a = &ch[k].get();
                    if (!seen.insert(a).second) ctx->fail("children-distinct:M2M", "same child twice");
                    auto cit = ctx->multipoles.find(a);
                    if (cit == ctx->multipoles.end()) { ctx->fail("unknown-object:M2M", "child multipole not in tree"); continue; }
                    const auto& cc = cit->second.coord;
                    if (pit != ctx->multipoles.end()) {
                        if (cit->second.level != pit->second.level + 1) ctx->fail("child-level:M2M", "child at level " + vh::str(cit->second.level));
                        bool isChild = true; for (int d = 0; d < D; ++d) if ((cc[d] >> 1) != pit->second.coord[d]) isChild = false;
                        if (!isChild) ctx->fail(ctx->hilbert ? "hilbert:parent-contains-child:M2M" : "child-of-parent:M2M", "child " + vh::astr(cc) + " parent " + vh::astr(pit->second.coord));
                    }
                    Coord<D> c; for (int d = 0; d < D; ++d) c[d] = cc[d];
                    if (pos[k] < 0 || pos[k] >= (1L << D)) ctx->fail("child-code-range:M2M", "code " + vh::str(pos[k]));
                    else if (pos[k] != vm::octantCode<D>(c)) ctx->fail(ctx->hilbert ? "hilbert:child-code-is-octant:M2M" : "child-code:M2M", "code " + vh::str(pos[k]) + " child " + vh::astr(cc));
                    if (ctx->record) ctx->elems.push_back({vm::OP_M2M, level, vm::tov<D>(hc(hdr)), cc, pos[k]});
                    ctx->access(a, false, 0, vm::OP_M2M);
                }
            } else {
                if (level < 0 || level > ctx->topHeight - 2) ctx->fail("top-level-range:M2M", "level " + vh::str(level));
                std::set<long> codes; long treeChildren = 0;
                for (long k = 0; k < n; ++k) {
                    if (pos[k] < 0 || pos[k] >= (1L << D)) { ctx->fail("child-code-range:M2M", "code " + vh::str(pos[k])); continue; }
                    if (!codes.insert(pos[k]).second) ctx->fail("children-distinct:M2M", "top tree: position code " + vh::str(pos[k]) + " handed twice in one call");
                    // the first step gathers the real level-1 cells: their code must be their octant
                    auto cit = ctx->multipoles.find(&ch[k].get());
                    if (cit != ctx->multipoles.end()) {
                        ++treeChildren;
                        Coord<D> c; for (int d = 0; d < D; ++d) c[d] = cit->second.coord[d];
                        if (cit->second.level != 1) ctx->fail("top-child-level:M2M", "tree child at level " + vh::str(cit->second.level));
                        else if (pos[k] != vm::octantCode<D>(c)) ctx->fail("child-code:M2M", "top-tree code " + vh::str(pos[k]) + " child " + vh::astr(cit->second.coord));
                    }
                }
                // the steps above repeat the box in every octant: all 2^Dim codes, once each
                if (treeChildren == 0 && n != (1L << D)) ctx->fail("children-count:M2M", "top tree upper step with " + vh::str(n) + " children");
                // level argument = level of the parent being written: the real level-1 cells are gathered at topHeight-2, every further step one level up
                if (treeChildren > 0) { if (level != ctx->topHeight - 2) ctx->fail("level-arg:M2M", "top tree: level argument " + vh::str(level) + " for the step gathering the real level-1 cells, expected " + vh::str(ctx->topHeight - 2)); }
                else for (long k = 0; k < n; ++k) {
                    auto it = ctx->topMultipoleLevel.find(&ch[k].get());
                    if (it == ctx->topMultipoleLevel.end()) ctx->fail("unknown-object:M2M", "top tree: child multipole was never produced");
                    else if (it->second != level + 1) ctx->fail("level-arg:M2M", "top tree: level argument " + vh::str(level) + " but the children were produced at level " + vh::str(it->second));
                }
                ctx->topMultipoleLevel[&up] = level;
                if (ctx->record) for (long k = 0; k < n; ++k) ctx->elems.push_back({vm::OP_M2M, level, {}, {}, pos[k]});
            }
            ctx->access(&up, true, 0, vm::OP_M2M);
        }
        inner.M2M(hdr, level, ch, up, pos, n);
    }

    template <class H, class C, class L>
    void M2L(const H& hdr, const long level, const C& src, const long pos[], const long n, L& loc) const {
        Guard g(*this);
        {
            std::lock_guard<std::mutex> lk(ctx->mu);
            ctx->calls[vm::OP_M2L]++;
            long maxn = 1, close = 1; for (int d = 0; d < D; ++d) { maxn *= (ctx->topTree ? 7 : 6); close *= 3; }
            if (n < 1 || n > maxn - close) ctx->fail("sources-count:M2L", "n=" + vh::str(n));
            if (!ctx->topTree) {
                checkHeader(hdr, level, "M2L");
                auto tit = ctx->locals.find(&loc);
                if (tit == ctx->locals.end()) ctx->fail("unknown-object:M2L", "target local not in tree");
                else {
                    if (tit->second.level != level) ctx->fail("level-arg:M2L", "level argument " + vh::str(level) + " but target is at level " + vh::str(tit->second.level));
                    if (tit->second.coord != vm::tov<D>(hc(hdr))) ctx->fail("wrong-object:M2L", "local does not belong to the header's cell");
                }
                std::set<std::pair<const void*, long>> seen;
                for (long k = 0; k < n; ++k) {
                    const void* a = &src[k].get();
                    if (!seen.insert({a, pos[k]}).second) ctx->fail("sources-distinct:M2L", "same source and code twice");
                    auto sit = ctx->multipoles.find(a);
                    if (sit == ctx->multipoles.end()) { ctx->fail("unknown-object:M2L", "source multipole not in tree"); continue; }
                    if (sit->second.level != level) ctx->fail("source-level:M2L", "source at level " + vh::str(sit->second.level) + " arg " + vh::str(level));
                    long big = 1; for (int d = 0; d < D; ++d) big *= 7;
                    if (pos[k] < 0 || pos[k] >= big) { ctx->fail("rel-code-range:M2L", "code " + vh::str(pos[k])); continue; }
                    const auto o = vm::decode7<D>(pos[k]);
                    const long nrm = vm::cheb<D>(o);
                    if (nrm < 2 || nrm > 3) ctx->fail("separation:M2L", "offset " + vh::astr(o));
                    bool okOff = true;
                    for (int d = 0; d < D; ++d) {
                        long diff = sit->second.coord[d] - hdr.boxCoord[d];
                        if (ctx->periodic) { if (vm::wrap(diff - o[d], 1L << level) != 0) okOff = false; }
                        else if (diff != o[d]) okOff = false;
                    }
                    if (!okOff) ctx->fail("rel-code:M2L", "code decodes to " + vh::astr(o) + " src " + vh::astr(sit->second.coord) + " tgt " + vh::astr(hdr.boxCoord));
                    if (ctx->record) ctx->elems.push_back({vm::OP_M2L, level, vm::tov<D>(hc(hdr)), sit->second.coord, pos[k]});
                    ctx->access(a, false, 0, vm::OP_M2L);
                }
            } else {
                if (level < 0 || level > ctx->topHeight - 2) ctx->fail("top-level-range:M2L", "level " + vh::str(level));
                ctx->topLocalLevel[&loc] = level;
                for (long k = 0; k < n; ++k) {
                    const auto o = vm::decode7<D>(pos[k]);
                    const long nrm = vm::cheb<D>(o);
                    if (nrm < 2 || nrm > 3) ctx->fail("separation:M2L", "top-tree offset " + vh::astr(o));
                    auto it = ctx->topMultipoleLevel.find(&src[k].get());
                    if (it == ctx->topMultipoleLevel.end()) ctx->fail("unknown-object:M2L", "top tree: source multipole was never produced");
                    else if (it->second != level) ctx->fail("source-level:M2L", "top tree: level argument " + vh::str(level) + " but the source was produced at level " + vh::str(it->second));
                    if (ctx->record) ctx->elems.push_back({vm::OP_M2L, level, {}, {}, pos[k]});
                }
            }
            ctx->access(&loc, true, 1, vm::OP_M2L);
        }
        inner.M2L(hdr, level, src, pos, n, loc);
    }

    template <class H, class L, class C>
    void L2L(const H& hdr, const long level, const L& up, C& ch, const long pos[], const long n) const {
        Guard g(*this);
        {
            std::lock_guard<std::mutex> lk(ctx->mu);
            ctx->calls[vm::OP_L2L]++;
            if (n < 1 || n > (1L << D)) ctx->fail("children-count:L2L", "n=" + vh::str(n));
            if (!ctx->topTree) {
                checkHeader(hdr, level, "L2L");
                auto pit = ctx->locals.find(&up);
                if (pit == ctx->locals.end()) ctx->fail("unknown-object:L2L", "parent local not in tree");
                else {
                    if (pit->second.level != level) ctx->fail("level-arg:L2L", "level argument " + vh::str(level) + " but parent is at level " + vh::str(pit->second.level));
                    if (pit->second.coord != vm::tov<D>(hc(hdr))) ctx->fail("wrong-object:L2L", "parent local does not belong to the header's cell");
                }
                std::set<const void*> seen;
                for (long k = 0; k < n; ++k) {
                    const void* a = &ch[k].get();
                    if (!seen.insert(a).second) ctx->fail("children-distinct:L2L", "same child twice");
                    auto cit = ctx->locals.find(a);
                    if (cit == ctx->locals.end()) { ctx->fail("unknown-object:L2L", "child local not in tree"); continue; }
                    const auto& cc = cit->second.coord;
                    if (pit != ctx->locals.end()) {
                        if (cit->second.level != pit->second.level + 1) ctx->fail("child-level:L2L", "child at level " + vh::str(cit->second.level));
                        bool isChild = true; for (int d = 0; d < D; ++d) if ((cc[d] >> 1) != pit->second.coord[d]) isChild = false;
                        if (!isChild) ctx->fail(ctx->hilbert ? "hilbert:parent-contains-child:L2L" : "child-of-parent:L2L", "child " + vh::astr(cc) + " parent " + vh::astr(pit->second.coord));
                    }
                    Coord<D> c; for (int d = 0; d < D; ++d) c[d] = cc[d];
                    if (pos[k] < 0 || pos[k] >= (1L << D)) ctx->fail("child-code-range:L2L", "code " + vh::str(pos[k]));
                    else if (pos[k] != vm::octantCode<D>(c)) ctx->fail(ctx->hilbert ? "hilbert:child-code-is-octant:L2L" : "child-code:L2L", "code " + vh::str(pos[k]) + " child " + vh::astr(cc));
                    if (ctx->record) ctx->elems.push_back({vm::OP_L2L, level, vm::tov<D>(hc(hdr)), cc, pos[k]});
                    ctx->access(a, true, 1, vm::OP_L2L);
                }
            } else {
                if (level < 0 || level > ctx->topHeight - 2) ctx->fail("top-level-range:L2L", "level " + vh::str(level));
                {   // level argument = level of the parent local being read (the level its M2L / the previous L2L step wrote it at)
                    auto it = ctx->topLocalLevel.find(&up);
                    if (it == ctx->topLocalLevel.end()) ctx->fail("unknown-object:L2L", "top tree: parent local was never produced");
                    else if (it->second != level) ctx->fail("level-arg:L2L", "top tree: level argument " + vh::str(level) + " but the parent local belongs to level " + vh::str(it->second));
                }
                for (long k = 0; k < n; ++k) {
                    if (ctx->locals.find(&ch[k].get()) != ctx->locals.end()) { if (level != ctx->topHeight - 2) ctx->fail("level-arg:L2L", "top tree: level argument " + vh::str(level) + " for the step reaching the real level-1 cells, expected " + vh::str(ctx->topHeight - 2)); }
                    else {
                        auto ic = ctx->topLocalLevel.find(&ch[k].get());
                        if (ic != ctx->topLocalLevel.end() && ic->second != level + 1) ctx->fail("child-level:L2L", "top tree: child local belongs to level " + vh::str(ic->second) + " but the level argument is " + vh::str(level));
                        ctx->topLocalLevel[&ch[k].get()] = level + 1;
                    }
                    if (pos[k] < 0 || pos[k] >= (1L << D)) ctx->fail("child-code-range:L2L", "top-tree code " + vh::str(pos[k]));
                    // the downward chain of the top tree follows octant 0; the last step reaches real level-1 cells
                    if (ctx->locals.find(&ch[k].get()) == ctx->locals.end() && pos[k] != 0) ctx->fail("top-child-code:L2L", "code " + vh::str(pos[k]) + " for the octant-0 chain");
                    auto cit = ctx->locals.find(&ch[k].get());
                    if (cit != ctx->locals.end()) {
                        Coord<D> c; for (int d = 0; d < D; ++d) c[d] = cit->second.coord[d];
                        if (cit->second.level != 1) ctx->fail("top-child-level:L2L", "tree child at level " + vh::str(cit->second.level));
                        else if (pos[k] != vm::octantCode<D>(c)) ctx->fail("child-code:L2L", "top-tree code " + vh::str(pos[k]) + " child " + vh::astr(cit->second.coord));
                    }
                    if (ctx->record) ctx->elems.push_back({vm::OP_L2L, level, {}, {}, pos[k]});
                }
            }
            ctx->access(&up, false, 1, vm::OP_L2L);
        }
        inner.L2L(hdr, level, up, ch, pos, n);
    }

    template <class H, class L, class P, class R>
    void L2P(const H& hdr, const L& loc, const long idx[], const P& data, R& rhs, const long n) const {
        Guard g(*this);
        {
            std::lock_guard<std::mutex> lk(ctx->mu);
            ctx->calls[vm::OP_L2P]++;
            checkHeader(hdr, ctx->height - 1, "L2P");
            checkParticles(1, hdr, idx, data, n, "L2P");
            auto it = ctx->locals.find(&loc);
            if (it == ctx->locals.end()) ctx->fail("unknown-object:L2P", "local not in tree");
            else if (it->second.level != ctx->height - 1 || it->second.coord != vm::tov<D>(hc(hdr))) ctx->fail("wrong-object:L2P", "local of another cell");
            if (ctx->record) ctx->elems.push_back({vm::OP_L2P, ctx->height - 1, vm::tov<D>(hc(hdr)), {}, 0});
            ctx->access(&loc, false, 1, vm::OP_L2P);
            ctx->access(&rhs[0][0], true, 2, vm::OP_L2P);
        }
        inner.L2P(hdr, loc, idx, data, rhs, n);
    }

    template <class HS, class HT> void checkNeighbor(const HS& sh, const HT& th, long code, bool allowSelf, const char* op) const {
        long big = 1; for (int d = 0; d < D; ++d) big *= 3;
        if (code < 0 || code >= big) { ctx->fail(std::string("rel-code-range:") + op, "code " + vh::str(code)); return; }
        const auto o = vm::decode3<D>(code);
        const long nrm = vm::cheb<D>(o);
        if (nrm > 1 || (nrm == 0 && !allowSelf)) ctx->fail(std::string("adjacency:") + op, "offset " + vh::astr(o));
        bool ok = true;
        for (int d = 0; d < D; ++d) {
            long diff = sh.boxCoord[d] - th.boxCoord[d];
            if (ctx->periodic) { if (vm::wrap(diff - o[d], 1L << (ctx->height - 1)) != 0) ok = false; }
            else if (diff != o[d]) ok = false;
        }
        if (!ok) ctx->fail(std::string("rel-code:") + op, "code decodes to " + vh::astr(o) + " src " + vh::astr(sh.boxCoord) + " tgt " + vh::astr(th.boxCoord));
    }

    template <class H, class P, class R>
    void P2P(const H& sh, const long sidx[], const P& sdata, R& srhs, const long ns,
             const H& th, const long tidx[], const P& tdata, R& trhs, const long nt, const long code) const {
        Guard g(*this);
        {
            std::lock_guard<std::mutex> lk(ctx->mu);
            ctx->calls[vm::OP_P2P]++;
            checkHeader(sh, ctx->height - 1, "P2P"); checkHeader(th, ctx->height - 1, "P2P");
            if (sh.nbParticles != ns || th.nbParticles != nt) ctx->fail("count-arg:P2P", "header count differs from argument");
            checkParticles(0, sh, sidx, sdata, ns, "P2P"); checkParticles(0, th, tidx, tdata, nt, "P2P");
            checkNeighbor(sh, th, code, false, "P2P");
            if (ctx->record) ctx->elems.push_back(vm::canonP2P<D>(ctx->height - 1, hc(th), hc(sh), vm::decode3<D>(code)));
            ctx->access(&trhs[0][0], true, 2, vm::OP_P2P);
            ctx->access(&srhs[0][0], true, 2, vm::OP_P2P);
        }
        inner.P2P(sh, sidx, sdata, srhs, ns, th, tidx, tdata, trhs, nt, code);
    }

    template <class HS, class PS, class HT, class PT, class R>
    void P2PTsm(const HS& sh, const long sidx[], const PS& sdata, const long ns,
                const HT& th, const long tidx[], const PT& tdata, R& trhs, const long nt, const long code) const {
        Guard g(*this);
        {
            std::lock_guard<std::mutex> lk(ctx->mu);
            ctx->calls[vm::OP_P2PTSM]++;
            checkHeader(sh, ctx->height - 1, "P2PTsm"); checkHeader(th, ctx->height - 1, "P2PTsm");
            checkParticles(0, sh, sidx, sdata, ns, "P2PTsm"); checkParticles(1, th, tidx, tdata, nt, "P2PTsm");
            checkNeighbor(sh, th, code, true, "P2PTsm");
            if (ctx->record) ctx->elems.push_back({vm::OP_P2PTSM, ctx->height - 1, vm::tov<D>(hc(th)), vm::tov<D>(hc(sh)), code});
            ctx->access(&trhs[0][0], true, 2, vm::OP_P2PTSM);
        }
        inner.P2PTsm(sh, sidx, sdata, ns, th, tidx, tdata, trhs, nt, code);
    }

    template <class H, class P, class R>
    void P2PInner(const H& hdr, const long idx[], const P& data, R& rhs, const long n) const {
        Guard g(*this);
        {
            std::lock_guard<std::mutex> lk(ctx->mu);
            ctx->calls[vm::OP_P2PINNER]++;
            checkHeader(hdr, ctx->height - 1, "P2PInner");
            checkParticles(0, hdr, idx, data, n, "P2PInner");
            if (ctx->record) ctx->elems.push_back({vm::OP_P2PINNER, ctx->height - 1, vm::tov<D>(hc(hdr)), {}, 0});
            ctx->access(&rhs[0][0], true, 2, vm::OP_P2PINNER);
        }
        inner.P2PInner(hdr, idx, data, rhs, n);
    }
};

} // namespace vp
#endif
