// One translation unit per tree flavour (VH_FL).
#include "tree_modes.hpp"
#ifndef VH_FL
#error "VH_FL required"
#endif
#define VH_CAT2(a, b) a##b
#define VH_CAT(a, b) VH_CAT2(a, b)
#define VH_FN VH_CAT(vh_tree_segments_f, VH_FL)

#if VH_FL == 1
using F = tr::Flavour<double, 1, 1, double, double, 1>;
#elif VH_FL == 2
using F = tr::Flavour<double, 2, 2, double, long, 2>;
#elif VH_FL == 3
using F = tr::Flavour<double, 3, 3, double, double, 1>;
#elif VH_FL == 4
using F = tr::Flavour<double, 4, 4, double, double, 1>;
#elif VH_FL == 5
using F = tr::Flavour<float, 3, 5, float, float, 2>;
#elif VH_FL == 6
using F = tr::Flavour<float, 2, 6, float, double, 4>;   // results wider than the coordinate type
#elif VH_FL == 7
using F = tr::Flavour<double, 3, 7, float, long, 4>;
#elif VH_FL == 8
using F = tr::Flavour<float, 3, 4, double, void_data, 0>;
#elif VH_FL == 9
using F = tr::Flavour<double, 3, 3, double, double, 1, tbx::Morton<double, 3, true>>;
#elif VH_FL == 10
using F = tr::Flavour<float, 1, 3, float, long, 3>;
#elif VH_FL == 11
#include "spacial/tbfhilbertspaceindex.hpp"
using F = tr::Flavour<double, 3, 4, double, double, 1, TbfHilbertSpaceIndex<3, TbfSpacialConfiguration<double, 3>, false>>;   // the README's alternative ordering
#endif

void VH_FN(std::map<std::string, std::vector<tr::Segment>>& out) {
    out["c06"].push_back(tr::c06Segment<F>(120, 20000));
#if VH_FL == 1 || VH_FL == 2 || VH_FL == 5 || VH_FL == 4
    out["c06"].push_back(tr::c06HugeSegment<F>(1, 6));
#endif
    out["c07"].push_back(tr::c07Segment<F>(100, 10000));
#if VH_FL == 1
    for (long H : {2L, 3L, 4L, 5L}) out["c07"].push_back(tr::c07EnumSegment<F>(H));
#elif VH_FL == 2
    for (long H : {2L, 3L}) out["c07"].push_back(tr::c07EnumSegment<F>(H));
#elif VH_FL == 3
    out["c07"].push_back(tr::c07EnumSegment<F>(2));
#endif
    out["c13"].push_back(tr::c13Segment<F>(60, 6000));
    out["c13"].push_back(tr::c13TsmSegment<F>(20, 2000));
    out["c13"].push_back(tr::c13EmptySegment<F>(4, 40));
    out["c16"].push_back(tr::c16Segment<F>(60, 6000));
    out["c17"].push_back(tr::c17Segment<F>(60, 6000));
}
