// C18: interaction counters (and the timer wrapper) against the model's elementary-interaction counts.
#ifndef VH_CNT_CORE_HPP
#define VH_CNT_CORE_HPP
#include "fmm_modes.hpp"
#include "kernels/counterkernels/tbfinteractioncounter.hpp"
#include "kernels/counterkernels/tbfinteractiontimer.hpp"

namespace fmm {

struct ExpCounts { long P2M = 0, M2M = 0, M2L = 0, L2L = 0, L2P = 0, P2P = 0, P2PInner = 0; };

template <int D> ExpCounts expectedCounts(const vm::Cells<D>& cells, const std::vector<Coord<D>>& leafOf, bool periodic, long upper) {
    ExpCounts e;
    std::map<std::vector<long>, long> perLeaf;
    for (const auto& c : leafOf) perLeaf[vm::tov<D>(c)] += 1;
    for (const auto& el : vm::expectedElems<D>(cells, periodic, upper)) {
        switch (el.op) {
        case vm::OP_P2M: e.P2M += 1; break;
        case vm::OP_M2M: e.M2M += 1; break;
        case vm::OP_M2L: e.M2L += 1; break;
        case vm::OP_L2L: e.L2L += 1; break;
        case vm::OP_L2P: e.L2P += 1; break;
        case vm::OP_P2P: e.P2P += perLeaf[el.tgt] * perLeaf[el.src]; break;
        case vm::OP_P2PINNER: e.P2PInner += perLeaf[el.tgt] * (perLeaf[el.tgt] - 1); break;
        default: break;
        }
    }
    return e;
}

template <class C> void compareCounts(const C& got, const ExpCounts& e, long mult, Result& res, const std::string& tag, const std::string& ctx) {
    auto chk = [&](const char* n, long g, long w) { if (g != w * mult) res.fail(tag + ":counter-" + n, std::string(n) + " reported " + vh::str(g) + " expected " + vh::str(w * mult) + " " + ctx); };
    chk("P2M", got.P2M, e.P2M); chk("M2M", got.M2M, e.M2M); chk("M2L", got.M2L, e.M2L); chk("L2L", got.L2L, e.L2L);
    chk("L2P", got.L2P, e.L2P); chk("P2P", got.P2P, e.P2P); chk("P2PInner", got.P2PInner, e.P2PInner);
    res.ev("counter-values-checked", 7);
}

// merge per-worker counters in many shapes: the documented left fold from an empty accumulator (every permutation for <= 5 workers),
// the same with the accumulator as the second argument, folds that start from a worker's own data, and random binary merge trees
template <class Algo, class KernelClass> void mergeAndCheck(const Algo& algo, const ExpCounts& e, long mult, vh::Rng& r, Result& res, const std::string& tag, const std::string& ctx) {
    using RT = typename KernelClass::ReduceType;
    std::vector<RT> parts;
    algo.applyToAllKernels([&](const auto& k) { parts.push_back(k.getReduceData()); });
    std::vector<size_t> perm(parts.size()); for (size_t i = 0; i < perm.size(); ++i) perm[i] = i;
    long nperm = 0;
    const std::string w = " workers=" + vh::str(parts.size());
    auto doMerge = [&]() {
        { auto c = RT(); for (size_t i : perm) c = RT::Reduce(c, parts[i]); compareCounts(c, e, mult, res, tag, ctx + " merge=left-fold" + w); }
        { auto c = RT(); for (size_t i : perm) c = RT::Reduce(parts[i], c); compareCounts(c, e, mult, res, tag, ctx + " merge=fold-with-accumulator-second" + w); }
        if (!perm.empty()) { auto c = parts[perm[0]]; for (size_t q = 1; q < perm.size(); ++q) c = RT::Reduce(c, parts[perm[q]]); compareCounts(c, e, mult, res, tag, ctx + " merge=fold-from-first-worker" + w); }
        if (!perm.empty()) {   // random binary tree
            std::vector<RT> pool; for (size_t i : perm) pool.push_back(parts[i]);
            while (pool.size() > 1) { const size_t a = r.below(pool.size()); RT x = pool[a]; pool.erase(pool.begin() + long(a)); const size_t b = r.below(pool.size()); pool[b] = r.coin() ? RT::Reduce(x, pool[b]) : RT::Reduce(pool[b], x); }
            compareCounts(pool[0], e, mult, res, tag, ctx + " merge=random-tree" + w);
        }
        nperm += 4;
    };
    if (parts.size() <= 4) { do { doMerge(); } while (std::next_permutation(perm.begin(), perm.end())); }
    else for (int t = 0; t < 6; ++t) { for (size_t i = perm.size(); i > 1; --i) std::swap(perm[i - 1], perm[r.below(i)]); doMerge(); }
    res.ev("merge-orders", nperm); res.ev("worker-copies-merged", (long long)parts.size());
}

// counts expected after executing only the operators of a flag set (multiples of the full-run counts per operator)
inline ExpCounts maskCounts(const ExpCounts& e, int flags) {
    using namespace TbfAlgorithmUtils;
    ExpCounts m;
    if (flags & TbfP2M) m.P2M = e.P2M; if (flags & TbfM2M) m.M2M = e.M2M; if (flags & TbfM2L) m.M2L = e.M2L; if (flags & TbfL2L) m.L2L = e.L2L;
    if (flags & TbfL2P) m.L2P = e.L2P; if (flags & TbfP2P) { m.P2P = e.P2P; m.P2PInner = e.P2PInner; }
    return m;
}

template <class E> Segment c18SeqSegment(long nQ, long nT) {
    constexpr int D = E::Cfg::Dim;
    using Real = typename E::Cfg::RealType;
    Segment s; s.name = std::string("c18-seq-") + E::orderingName() + "-D" + vh::str(D);
    s.count = [=](bool th) { return th ? nT : nQ; };
    s.run = [=](long kk, uint64_t seed, bool, Result& res) {
        vh::Rng r(vh::mix(seed ^ 0xC18, uint64_t(kk) * 4 + D));
        auto c = randomConf<E>(r, vh::mix(seed, kk), 300, false, E::Space::IsPeriodic ? 2 : 1);
        if (kk % 5 == 4 && !E::Space::IsPeriodic) c.upper = c.geo.H - 1 + long(r.below(3));   // upper level at or beyond the leaf level: no far-field operator may be counted
        const long N = long(c.parts.size());
        res.desc = confDesc<E>(c) + " executor=sequential kernel=" + (kk % 3 == 0 ? "counter<P-poly>" : kk % 3 == 1 ? "counter<TbfTestKernel>" : "timer<P-poly>");
        // reference with the unwrapped kernel
        PolyRun<E, typename E::PolyKernel> plain; plain.build(c);
        { TbfAlgorithm<Real, typename E::PolyKernel, typename E::Space> a(*plain.cfg, c.upper); a.execute(*plain.tree); }
        const auto ref = snapshotTree<E>(*plain.tree, N);
        bool ok = true; const auto leafOf = tbx::leafOfParticle<D>(*plain.tree, N, &ok);
        vm::Cells<D> cells; cells.build(c.geo.H, tbx::leafSet<D>(leafOf));
        const auto e = expectedCounts<D>(cells, leafOf, E::Space::IsPeriodic, c.upper);
        if (kk % 3 == 0) {
            using K = TbfInteractionCounter<typename E::PolyKernel>;
            PolyRun<E, K> pr; pr.build(c);
            // every other case: the executor is given a (fresh, unused) user-built counter kernel instead of building its own
            const K userKernel(*pr.cfg);
            auto algo = (kk % 2) ? std::make_unique<TbfAlgorithm<Real, K, typename E::Space>>(*pr.cfg, userKernel, c.upper) : std::make_unique<TbfAlgorithm<Real, K, typename E::Space>>(*pr.cfg, c.upper);
            algo->execute(*pr.tree);
            if (!(snapshotTree<E>(*pr.tree, N) == ref)) res.fail("c18:wrapped-results-differ", "counter<P-poly> vs P-poly");
            mergeAndCheck<decltype(*algo), K>(*algo, e, 1, r, res, "c18", "after one execute");
            algo->execute(*pr.tree);
            mergeAndCheck<decltype(*algo), K>(*algo, e, 2, r, res, "c18", "after two executes (cumulative)");
            // partial operator sets: a fresh executor running only some stages reports exactly those operators
            {
                using namespace TbfAlgorithmUtils;
                const int sets[] = {TbfP2M | TbfM2M, TbfP2M | TbfM2M | TbfM2L, TbfP2P, TbfBottomToTopStages | TbfTransferStages, int(1 + r.below(63))};
                for (int fl : sets) {
                    PolyRun<E, K> p2; p2.build(c);
                    auto a2 = std::make_unique<TbfAlgorithm<Real, K, typename E::Space>>(*p2.cfg, c.upper);
                    a2->execute(*p2.tree, fl);
                    mergeAndCheck<decltype(*a2), K>(*a2, maskCounts(e, fl), 1, r, res, "c18", "operators=" + vh::str(fl));
                    res.ev("partial-operator-runs");
                }
            }
        } else if (kk % 3 == 1) {
            using K = TbfInteractionCounter<TbfTestKernel<Real, typename E::Space>>;
            using Cell = std::array<long, 1>;
            using Tree = TbfTree<Real, Real, E::NV, long, 1, Cell, Cell, typename E::Space>;
            const typename E::Cfg cfg(c.geo.H, c.geo.width, c.geo.center);
            Tree tree(cfg, c.parts, c.blockSize, c.oneGroupPerParent), tree2(cfg, c.parts, c.blockSize, c.oneGroupPerParent);
            TbfAlgorithm<Real, K, typename E::Space> algo(cfg, c.upper);
            TbfAlgorithm<Real, TbfTestKernel<Real, typename E::Space>, typename E::Space> algo2(cfg, c.upper);
            algo.execute(tree); algo2.execute(tree2);
            std::vector<long> a(N), b(N);
            tree.applyToAllLeaves([&](auto& h, const long* idx, auto&&, auto&& rhs) { for (long p = 0; p < h.nbParticles; ++p) a[idx[p]] = rhs[0][p]; });
            tree2.applyToAllLeaves([&](auto& h, const long* idx, auto&&, auto&& rhs) { for (long p = 0; p < h.nbParticles; ++p) b[idx[p]] = rhs[0][p]; });
            if (a != b) res.fail("c18:wrapped-results-differ", "counter<TbfTestKernel> vs TbfTestKernel");
            mergeAndCheck<decltype(algo), K>(algo, e, 1, r, res, "c18", "counting kernel");
        } else {
            using K = TbfInteractionTimer<typename E::PolyKernel>;
            PolyRun<E, K> pr; pr.build(c);
            auto algo = std::make_unique<TbfAlgorithm<Real, K, typename E::Space>>(*pr.cfg, c.upper);
            algo->execute(*pr.tree);
            if (!(snapshotTree<E>(*pr.tree, N) == ref)) res.fail("c18:wrapped-results-differ", "timer<P-poly> vs P-poly");
            auto t = typename K::ReduceType();
            algo->applyToAllKernels([&](const auto& k) { t = K::ReduceType::Reduce(t, k.getReduceData()); });
            res.ev("timer-merges");
        }
        res.sig = confSig<E>(c, vh::mix(c.seed, 18 + kk % 3)); res.nontrivial = e.M2L + e.P2P > 0;
    };
    return s;
}

} // namespace fmm
#endif
