// C20: direct particle-particle routines (scalar path; Inastemp is not present in this image).
#include "num_core.hpp"

namespace {
using namespace num;

template <class Real> struct Cloud {
    std::array<std::vector<Real>, 4> v;   // x y z q
    std::array<std::vector<Real>, 4> rhs; // fx fy fz pot
    long n = 0;
    std::array<const Real*, 4> data() const { return {v[0].data(), v[1].data(), v[2].data(), v[3].data()}; }
    std::array<Real*, 4> out() { return {rhs[0].data(), rhs[1].data(), rhs[2].data(), rhs[3].data()}; }
};

// neutralFrac: fraction of particles with charge exactly 0 (neutral probes: they still receive a potential and exert none);
// qScale: common magnitude of the charges
template <class Real> Cloud<Real> makeCloud(vh::Rng& r, long n, double scale, double offset, int sign, bool initRhs, double neutralFrac = 0, double qScale = 1) {
    Cloud<Real> c; c.n = n;
    for (auto& a : c.v) a.resize(size_t(n) + 1); for (auto& a : c.rhs) a.resize(size_t(n) + 1);
    for (long i = 0; i < n; ++i) {
        for (int d = 0; d < 3; ++d) c.v[d][i] = Real(offset + scale * (r.unit() - 0.5));
        c.v[3][i] = Real((sign == 0 ? 1.0 : sign == 1 ? -1.0 : (r.coin() ? 1.0 : -1.0)) * (0.1 + r.unit()) * qScale);
        if (neutralFrac > 0 && r.coin(neutralFrac)) c.v[3][i] = Real(0);
        for (int k = 0; k < 4; ++k) c.rhs[k][i] = initRhs ? Real(10.0 * (r.unit() - 0.5)) : Real(0);
    }
    return c;
}

long countFor(vh::Rng& r) {
    const int k = int(r.below(8));
    if (k == 0) return 0;
    if (k == 1) return 1;
    if (k == 2) { const long base[] = {4, 8, 16, 32, 64}; return std::max<long>(0, base[r.below(5)] * long(1 + r.below(4)) + long(r.below(3)) - 1); } // +-1 around SIMD-width multiples
    if (k == 3) return long(r.below(500)) + 1;
    return long(r.below(40)) + 1;
}

template <class Real> bool tooClose(const Cloud<Real>& a, const Cloud<Real>& b, bool same) {
    for (long i = 0; i < a.n; ++i) for (long j = 0; j < b.n; ++j) { if (same && i == j) continue; if (a.v[0][i] == b.v[0][j] && a.v[1][i] == b.v[1][j] && a.v[2][i] == b.v[2][j]) return true; }
    return false;
}

// expected increments in long double + sums of absolute terms
template <class Real> void refRemote(const Cloud<Real>& src, const Cloud<Real>& tgt, bool same, std::array<std::vector<LD>, 4>& inc, std::array<std::vector<LD>, 4>& sab) {
    for (int k = 0; k < 4; ++k) { inc[k].assign(size_t(tgt.n), 0); sab[k].assign(size_t(tgt.n), 0); }
    for (long i = 0; i < tgt.n; ++i) for (long j = 0; j < src.n; ++j) {
        if (same && i == j) continue;
        const LD dx = (LD)src.v[0][j] - tgt.v[0][i], dy = (LD)src.v[1][j] - tgt.v[1][i], dz = (LD)src.v[2][j] - tgt.v[2][i];
        const LD r2 = dx * dx + dy * dy + dz * dz, r = std::sqrt(r2);
        const LD c = (LD)tgt.v[3][i] * src.v[3][j] / (r2 * r);
        inc[0][i] += c * dx; inc[1][i] += c * dy; inc[2][i] += c * dz; inc[3][i] += (LD)src.v[3][j] / r;
        sab[0][i] += std::fabs(c * dx); sab[1][i] += std::fabs(c * dy); sab[2][i] += std::fabs(c * dz); sab[3][i] += std::fabs((LD)src.v[3][j]) / r;
    }
}

// |got - (init + inc)| <= coef * (nterms + 12) * eps * (sum|terms| + |init|): first-order worst-case bound of recursive summation
// plus the per-term rounding of the kernel evaluation (1/r^2, sqrt, products)
template <class Real> void compare(const Cloud<Real>& before, const Cloud<Real>& after, const std::array<std::vector<LD>, 4>& inc, const std::array<std::vector<LD>, 4>& sab, long nterms, Result& res, const std::string& key, const std::string& ctx) {
    const double coef = boundOf("p2p.coef", res);
    const LD eps = std::numeric_limits<Real>::epsilon();
    static const char* nm[] = {"fx", "fy", "fz", "pot"};
    for (long i = 0; i < before.n; ++i) for (int k = 0; k < 4; ++k) {
        const LD want = (LD)before.rhs[k][i] + inc[k][i];
        const LD tol = coef * (nterms + 12) * eps * (sab[k][i] + std::fabs((LD)before.rhs[k][i])) + std::numeric_limits<Real>::min();
        const LD err = std::fabs((LD)after.rhs[k][i] - want);
        if (!std::isfinite((double)after.rhs[k][i])) res.fail(key + ":not-finite", ctx);
        else if (err > tol) res.fail(key + ":" + nm[k], ctx + " particle " + vh::str(i) + " got " + vh::str((double)after.rhs[k][i]) + " expected " + vh::str((double)want) + " err " + vh::str((double)err) + " tol " + vh::str((double)tol));
        if (sab[k][i] > 0) recordMax(res, std::string("p2p-err-over-bound"), double(err / (tol > 0 ? tol : 1)) * 1e-3);
        res.ev("p2p-values-checked");
    }
}

template <class Real> void runCase(long kk, uint64_t seed, Result& res) {
    vh::Rng r(vh::mix(seed ^ 0xC20, uint64_t(kk) * 2 + (sizeof(Real) == 4)));
    const long ns = countFor(r), nt = countFor(r);
    const double scale = std::pow(10.0, double(r.range(-6, 6)));   // separations over 12 orders of magnitude
    const double offset = r.coin(0.5) ? 0.0 : scale * double(r.range(-3, 3));
    const int sign = int(r.below(3));
    const bool init = r.coin(0.6);
    // neutral particles (charge exactly 0) in a third of the cases: 20% of the particles, or everything but one, or the first / last one only
    const int neutralKind = r.coin(0.34) ? 1 + int(r.below(4)) : 0;
    const double neutralFrac = neutralKind == 1 ? 0.2 : neutralKind == 2 ? 0.9 : 0.0;
    const double qScale = r.coin(0.25) ? std::pow(10.0, double(r.range(-2, 2))) : 1.0;
    const std::string ctx = std::string(realName<Real>()) + " ns=" + vh::str(ns) + " nt=" + vh::str(nt) + " scale=1e" + vh::str(std::log10(scale)) + " sign=" + vh::str(sign) + " initialRhs=" + vh::str(init) + " neutral=" + vh::str(neutralKind) + " qScale=" + vh::str(qScale);
    res.desc = ctx;
    auto S = makeCloud<Real>(r, ns, scale, offset, sign, init, neutralFrac, qScale);
    auto T = makeCloud<Real>(r, nt, scale, offset + (r.coin(0.5) ? 0.0 : scale * 1.5), sign, init, neutralFrac, r.coin(0.5) ? qScale : 1.0);
    if (neutralKind == 3) { if (ns) S.v[3][0] = Real(0); if (nt) T.v[3][0] = Real(0); }
    if (neutralKind == 4) { if (ns) S.v[3][size_t(ns) - 1] = Real(0); if (nt) T.v[3][size_t(nt) - 1] = Real(0); }
    if (neutralKind) res.ev("p2p-cases-with-neutral-particles");
    if (tooClose(S, T, false) || tooClose(T, T, true) || tooClose(S, S, true)) { res.skipped = true; res.skipReason = "coincident points (1/r undefined)"; return; }
    std::array<std::vector<LD>, 4> incT, sabT, incS, sabS, incI, sabI;
    refRemote(S, T, false, incT, sabT); refRemote(T, S, false, incS, sabS); refRemote(T, T, true, incI, sabI);
    // (1) one-sided remote: targets updated, sources untouched
    {
        auto T1 = T; const auto Sdata = S.v;
        auto out = T1.out(); const auto sd = S.data(); const auto td = T1.data();
        // the routines take any container with operator[] per row: arrays of raw pointers (what the kernels pass) in most cases, the owning
        // std::array<std::vector<Real>,4> containers themselves in every fourth case
        const bool owning = (kk % 4 == 1);
        if (owning) { FP2PR::template GenericFullRemote<Real>(S.v, ns, T1.v, T1.rhs, nt); res.ev("p2p-owning-container-calls"); }
        else FP2PR::template GenericFullRemote<Real>(sd, ns, td, out, nt);
        compare(T, T1, incT, sabT, ns, res, "c20:remote", ctx);
        if (S.v != Sdata) res.fail("c20:remote-modified-sources", ctx);
        if (T1.v != T.v) res.fail("c20:remote-modified-target-data", ctx);
    }
    // (2) mutual: both sides, equal and opposite; equivalent to two one-sided calls
    {
        auto T1 = T; auto S1 = S;
        auto outT = T1.out(); auto outS = S1.out(); const auto sd = S1.data(); const auto td = T1.data();
        if (kk % 4 == 1) { FP2PR::template FullMutual<Real>(S1.v, S1.rhs, ns, T1.v, T1.rhs, nt); res.ev("p2p-owning-container-calls"); }
        else FP2PR::template FullMutual<Real>(sd, outS, ns, td, outT, nt);
        compare(T, T1, incT, sabT, ns, res, "c20:mutual-targets", ctx);
        compare(S, S1, incS, sabS, nt, res, "c20:mutual-sources", ctx);
        if (ns == 1 && nt == 1 && !init) {
            for (int k = 0; k < 3; ++k) if (T1.rhs[k][0] != -S1.rhs[k][0]) res.fail("c20:mutual-not-equal-and-opposite", ctx + " component " + vh::str(k) + " target " + vh::str((double)T1.rhs[k][0]) + " source " + vh::str((double)S1.rhs[k][0]));
            res.ev("p2p-opposite-pairs-checked");
        }
        // total momentum: sum of forces on targets = - sum on sources (to rounding)
        for (int k = 0; k < 3; ++k) {
            LD a = 0, b = 0, sa = 0;
            for (long i = 0; i < nt; ++i) { a += (LD)T1.rhs[k][i] - T.rhs[k][i]; sa += sabT[k][size_t(i)]; }
            for (long j = 0; j < ns; ++j) { b += (LD)S1.rhs[k][j] - S.rhs[k][j]; sa += sabS[k][size_t(j)]; }
            LD initAbs = 0; for (long i = 0; i < nt; ++i) initAbs += std::fabs((LD)T.rhs[k][i]); for (long j = 0; j < ns; ++j) initAbs += std::fabs((LD)S.rhs[k][j]);
            const LD tol = boundOf("p2p.coef", res) * (ns + nt + 12) * (LD)std::numeric_limits<Real>::epsilon() * (sa + initAbs) + std::numeric_limits<Real>::min();
            if (std::fabs(a + b) > tol) res.fail("c20:mutual-momentum", ctx + " component " + vh::str(k) + " sum " + vh::str((double)(a + b)) + " tol " + vh::str((double)tol));
        }
    }
    // (3) inner: self term excluded
    {
        auto T1 = T; auto out = T1.out(); const auto td = T1.data();
        if (kk % 4 == 1) { FP2PR::template GenericInner<Real>(T1.v, T1.rhs, nt); res.ev("p2p-owning-container-calls"); }
        else FP2PR::template GenericInner<Real>(td, out, nt);
        compare(T, T1, incI, sabI, nt, res, "c20:inner", ctx);
        if (nt <= 1) for (int k = 0; k < 4; ++k) if (nt == 1 && std::memcmp(&T1.rhs[k][0], &T.rhs[k][0], sizeof(Real)) != 0) res.fail("c20:inner-self-term", ctx);
    }
    // (4) mutual on a cloud and its own shifted image, with ONE set of result arrays passed for both sides - what the kernels do for a
    //     leaf that is its own periodic neighbour (tree height 1): every ordered pair (t, s) adds the action on t and the reaction on s
    //     into the same arrays, the pair (i, image of i) included
    if (nt >= 1 && kk % 3 == 0) {
        auto T1 = T;
        Cloud<Real> Img = T;   // image positions: shifted by a whole "box" of this cloud's scale along a random direction
        const int dir = int(r.below(3)); const Real shift = Real((r.coin() ? 4.0 : -4.0) * scale);
        for (long i = 0; i < nt; ++i) Img.v[size_t(dir)][size_t(i)] = Real(T.v[size_t(dir)][size_t(i)] + shift);
        std::array<std::vector<LD>, 4> inc, sab; for (int k = 0; k < 4; ++k) { inc[k].assign(size_t(nt), 0); sab[k].assign(size_t(nt), 0); }
        for (long t = 0; t < nt; ++t) for (long q = 0; q < nt; ++q) {
            const LD dx = (LD)Img.v[0][q] - T.v[0][t], dy = (LD)Img.v[1][q] - T.v[1][t], dz = (LD)Img.v[2][q] - T.v[2][t];
            const LD r2 = dx * dx + dy * dy + dz * dz, rr = std::sqrt(r2);
            const LD c = (LD)T.v[3][t] * T.v[3][q] / (r2 * rr);
            const LD f[3] = {c * dx, c * dy, c * dz};
            for (int k = 0; k < 3; ++k) { inc[k][size_t(t)] += f[k]; inc[k][size_t(q)] -= f[k]; sab[k][size_t(t)] += std::fabs(f[k]); sab[k][size_t(q)] += std::fabs(f[k]); }
            inc[3][size_t(t)] += (LD)T.v[3][q] / rr; inc[3][size_t(q)] += (LD)T.v[3][t] / rr;
            sab[3][size_t(t)] += std::fabs((LD)T.v[3][q]) / rr; sab[3][size_t(q)] += std::fabs((LD)T.v[3][t]) / rr;
        }
        auto out = T1.out(); const auto imgd = Img.data(); const auto td = T1.data();
        FP2PR::template FullMutual<Real>(imgd, out, nt, td, out, nt);
        compare(T, T1, inc, sab, 2 * nt, res, "c20:mutual-own-image", ctx + " shift along " + vh::str(dir));
        res.ev("p2p-own-image-cases");
    }
    res.sig = ctx; res.nontrivial = ns >= 1 && nt >= 1;
}
} // namespace

void vh_num_segments_p2p(std::map<std::string, std::vector<num::Segment>>& out) {
    num::Segment s; s.name = "c20-p2p";
    s.count = [](bool th) { return th ? 60000L : 3000L; };
    s.run = [](long kk, uint64_t seed, bool, vh::Result& res) { if (kk % 2) runCase<float>(kk, seed, res); else runCase<double>(kk, seed, res); };
    out["c20"].push_back(s);
}
