// Engine h_omp: the OpenMP executors on the REAL libgomp runtime (no shim), thread counts 1..16.
// Purpose: (1) executions on the runtime users actually link, (2) a cross-check of the shim's reading of the GOMP ABI:
// whatever the shim-driven runs conclude must also hold here. Oracles: P-rec argument checks + events == model (thread-safe
// recorder), kernel-instance ownership by omp_get_thread_num, bit-identical to the sequential executor, ASan+UBSan.
// No O-dag here (the real runtime does not expose its graph) and no TSan (libgomp is not instrumented: false races).
#include "tsm_core.hpp"
#include "algorithms/openmp/tbfopenmpalgorithm.hpp"
#include "algorithms/openmp/tbfopenmpalgorithmtsm.hpp"
#include <omp.h>
#ifndef VH_PER
#define VH_PER 0
#endif
#define VH_CAT2(a, b, c) a##b##_##c
#define VH_CAT(a, b, c) VH_CAT2(a, b, c)
#define VH_FN VH_CAT(vh_omp_segments_d, VH_DIM, VH_PER)

namespace {
using fmm::Segment; using vh::Result;
using E = fmm::Env<double, VH_DIM, (VH_PER != 0)>;
constexpr int D = VH_DIM;
using Real = double;

std::vector<int> threadCounts(vh::Rng& r, bool th) { if (th) return {1, 2, 3, 4, 8, 16}; std::vector<int> v{1, 16}; const int Ts[] = {2, 3, 4, 8}; v.push_back(Ts[r.below(4)]); return v; }

Segment single(long nQ, long nT) {
    Segment s; s.name = std::string("c03-libgomp-") + E::orderingName() + "-D" + vh::str(D);
    s.count = [=](bool th) { return th ? nT : nQ; };
    s.run = [=](long kk, uint64_t seed, bool th, Result& res) {
        vh::Rng r(vh::mix(seed ^ 0x03AA, uint64_t(kk) * 4 + D));
        auto c = fmm::randomConf<E>(r, vh::mix(seed, kk), 250, false, E::Space::IsPeriodic ? 2 : (r.coin(0.8) ? 3 : 1));
        if (c.blockSize > 8 && r.coin(0.6)) c.blockSize = 1 + long(r.below(6));
        const long N = long(c.parts.size());
        const auto Ts = threadCounts(r, th);
        res.desc = fmm::confDesc<E>(c) + " executor=TbfOpenmpAlgorithm runtime=libgomp threads=" + vh::astr(Ts);
        fmm::PolyRun<E, typename E::PolyKernel> seq; seq.build(c);
        { TbfAlgorithm<Real, typename E::PolyKernel, typename E::Space> a(*seq.cfg, c.upper); a.execute(*seq.tree); }
        const auto ref = fmm::snapshotTree<E>(*seq.tree, N);
        seq.reference(false, res); seq.compare(res, "c03:sequential-poly-direct-sum");
        bool okIdx = true; const auto leafOf = tbx::leafOfParticle<D>(*seq.tree, N, &okIdx);
        vm::Cells<D> cells; cells.build(c.geo.H, tbx::leafSet<D>(leafOf));
        const auto want = vm::expectedElems<D>(cells, E::Space::IsPeriodic, c.upper);
        for (int T : Ts) for (int rep = 0; rep < (th ? 3 : 2); ++rep) {
            omp_set_num_threads(rep == 1 ? 1 : T);   // second repetition: the executor is built under one thread and must grow its kernels at execute()
            fmm::PolyRun<E, typename E::CheckedPoly> pr; pr.build(c);
            vp::RecCtx<D> rc; fmm::fillRecCtx<E>(rc, *pr.tree, *pr.cfg, &c.parts, &c.parts);
            rc.currentWorker = [] { return long(omp_get_thread_num()); };
            E::CheckedPoly::globalCtx() = &rc;
            { auto algo = std::make_unique<TbfOpenmpAlgorithm<Real, typename E::CheckedPoly, typename E::Space>>(*pr.cfg, c.upper); omp_set_num_threads(T); algo->execute(*pr.tree); }
            for (auto& v : rc.violations) res.fail("c03:" + v.first, v.second + " [libgomp T=" + vh::str(T) + "]");
            const auto got = fmm::snapshotTree<E>(*pr.tree, N);
            if (!(got == ref)) res.fail(std::string("c03:differs-from-sequential:") + (got.rhs != ref.rhs ? "results" : got.cells != ref.cells ? "expansions" : "symbolic"), "libgomp T=" + vh::str(T));
            fmm::compareElems<D>(rc.elems, want, res, "c03:events");
            res.ev("libgomp-runs"); res.ev("elementary-interactions", (long long)rc.elems.size());
        }
        res.sig = "libgomp:" + fmm::confSig<E>(c, vh::mix(c.seed, 9)); res.nontrivial = N >= 2;
    };
    return s;
}

Segment tsm(long nQ, long nT) {
    Segment s; s.name = std::string("c09-libgomp-") + E::orderingName() + "-D" + vh::str(D);
    s.count = [=](bool th) { return th ? nT : nQ; };
    s.run = [=](long kk, uint64_t seed, bool th, Result& res) {
        vh::Rng r(vh::mix(seed ^ 0x09AA, uint64_t(kk) * 4 + D));
        auto c = fmm::randomTsmConf<E>(r, vh::mix(seed, kk), 200, E::Space::IsPeriodic ? 2 : (r.coin(0.8) ? 3 : 1));
        if (c.blockSize > 8 && r.coin(0.6)) c.blockSize = 1 + long(r.below(6));
        const auto Ts = threadCounts(r, th);
        res.desc = fmm::tsmDesc<E>(c) + " executor=TbfOpenmpAlgorithmTsm runtime=libgomp threads=" + vh::astr(Ts);
        fmm::TsmPolyRun<E> seq; seq.build(c);
        { TbfAlgorithmTsm<Real, typename E::PolyKernel, typename E::Space> a(*seq.cfg, c.upper); a.execute(*seq.tree); }
        const auto ref = seq.snapshot();
        seq.reference(); seq.compare(res, "c09:sequential-poly-direct-sum");
        bool o1, o2; const auto ls = fmm::leafOfSrc<D>(*seq.tree, seq.Ns, &o1); const auto lt = fmm::leafOfTgt<D>(*seq.tree, seq.Nt, &o2);
        vm::Cells<D> cs, ct; cs.build(c.geo.H, tbx::leafSet<D>(ls)); ct.build(c.geo.H, tbx::leafSet<D>(lt));
        const auto want = vm::expectedElemsTsm<D>(cs, ct, E::Space::IsPeriodic, c.upper);
        for (int T : Ts) for (int rep = 0; rep < 2; ++rep) {
            omp_set_num_threads(rep == 1 ? 1 : T);
            fmm::TsmPolyRun<E> pr; pr.build(c);
            vp::RecCtx<D> rc; pr.fillRec(rc, c);
            rc.currentWorker = [] { return long(omp_get_thread_num()); };
            E::CheckedPoly::globalCtx() = &rc;
            { auto algo = std::make_unique<TbfOpenmpAlgorithmTsm<Real, typename E::CheckedPoly, typename E::Space>>(*pr.cfg, c.upper); omp_set_num_threads(T); algo->execute(*pr.tree); }
            for (auto& v : rc.violations) res.fail("c09:" + v.first, v.second + " [libgomp T=" + vh::str(T) + "]");
            const auto got = pr.snapshot();
            if (!(got == ref)) res.fail(std::string("c09:differs-from-sequential:") + (got.rhs != ref.rhs ? "results" : (got.m != ref.m || got.l != ref.l) ? "expansions" : "symbolic"), "libgomp T=" + vh::str(T));
            fmm::compareElems<D>(rc.elems, want, res, "c09:events");
            res.ev("libgomp-runs"); res.ev("elementary-interactions", (long long)rc.elems.size());
        }
        res.sig = "libgomp-tsm:" + vh::str(vh::mix(c.seed, 10)); res.nontrivial = true;
    };
    return s;
}
} // namespace

void VH_FN(std::map<std::string, std::vector<fmm::Segment>>& out) {
    out["c03"].push_back(single(10, 300));
    out["c09"].push_back(tsm(6, 200));
}
