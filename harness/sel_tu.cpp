// C19: the algorithm selector header with several task runtimes enabled at once (OpenMP + Specx + StarPU), compiled
// against the mock runtime headers. Program: the selected executors run a small counting FMM.
#define TBF_USE_OPENMP
#define TBF_USE_SPECX
#define TBF_USE_STARPU
#include "tbx.hpp"
#include "rt/sched.hpp"
#include "kernels/testkernel/tbftestkernel.hpp"
#include "algorithms/tbfalgorithmselecter.hpp"

namespace {
void runCase(long kk, uint64_t seed, bool, vh::Result& res) {
    using Real = double; constexpr int D = 3;
    using Space = TbfDefaultSpaceIndexType<Real>;
    using Kernel = TbfTestKernel<Real>;
    using Algo = TbfAlgorithmSelecter::type<Real, Kernel>;
    using AlgoTsm = TbfAlgorithmSelecterTsm::type<Real, Kernel>;
    using Cell = std::array<long, 1>;
    vh::Rng r(vh::mix(seed ^ 0x5E1, uint64_t(kk)));
    const long H = r.range(2, 4);
    auto geo = tbx::genGeo<Real, D>(r, H, false);
    const tbx::Config<Real, D> cfg(H, geo.width, geo.center);
    const long N = r.range(2, 300);
    const auto pos = tbx::genPositions<Real, D>(r, cfg, int(r.below(tbx::D_NB)), N);
    res.desc = std::string("selector with OPENMP+SPECX+STARPU: ") + Algo::GetName() + " / " + AlgoTsm::GetName() + " height=" + vh::str(H) + " N=" + vh::str(N);
    vsched::configure(int(r.pick(std::vector<int>{1, 2, 4, 8})), int(r.below(vsched::NB_POLICIES)), r.next() % 1000);
    const long bs = 1 + long(r.below(20));
    if (kk % 2 == 0) {
        TbfTree<Real, Real, D, long, 1, Cell, Cell, Space> tree(cfg, pos, bs, r.coin());
        { auto algo = std::make_unique<Algo>(cfg); algo->execute(tree); }
        tree.applyToAllLeaves([&](auto& hdr, const long* idx, auto&&, auto&& rhs) { for (long p = 0; p < hdr.nbParticles; ++p) if (rhs[0][p] != N - 1) { res.fail("c19:selector-counting-kernel", "particle " + vh::str(idx[p]) + " got " + vh::str(rhs[0][p]) + " expected " + vh::str(N - 1)); return; } });
    } else {
        const auto pos2 = tbx::genPositions<Real, D>(r, cfg, int(r.below(tbx::D_NB)), 1 + N / 2);
        TbfTreeTsm<Real, Real, D, long, 1, Cell, Cell, Space> tree(cfg, pos, pos2, bs, r.coin());
        { auto algo = std::make_unique<AlgoTsm>(cfg); algo->execute(tree); }
        tree.applyToAllLeavesTarget([&](auto& hdr, const long* idx, auto&&, auto&& rhs) { for (long p = 0; p < hdr.nbParticles; ++p) if (rhs[0][p] != N) { res.fail("c19:selector-counting-kernel-tsm", "target " + vh::str(idx[p]) + " got " + vh::str(rhs[0][p]) + " expected " + vh::str(N)); return; } });
    }
    res.ev("cell-cases"); res.ev("pairs-checked", N * N);
    res.sig = "selector:" + vh::str(kk) + "," + vh::str(N); res.nontrivial = true;
}
}
int main(int argc, char** argv) {
    vh::Mode m; m.name = "c19";
    m.count = [](bool th) { return th ? 60L : 12L; };
    m.run = [](long k, uint64_t seed, bool th, vh::Result& r) { runCase(k, seed, th, r); };
    return vh::harness_main(argc, argv, {m});
}
