// One translation unit per (VH_DIM, VH_PER) of the task-executor engine; compiled with -fopenmp, linked with rt/sched.cpp.
#include "sched_core.hpp"
#ifndef VH_PER
#define VH_PER 0
#endif
#ifndef VH_TSAN
#define VH_TSAN 0
#endif
#define VH_CAT2(a, b, c) a##b##_##c
#define VH_CAT(a, b, c) VH_CAT2(a, b, c)
#define VH_FN VH_CAT(vh_sched_segments_d, VH_DIM, VH_PER)

void VH_FN(std::map<std::string, std::vector<fmm::Segment>>& out) {
    using E = fmm::Env<double, VH_DIM, (VH_PER != 0)>;
    out["c03"].push_back(sch::c03Segment<E>(VH_TSAN ? 6 : 12, VH_TSAN ? 60 : 400, VH_TSAN));
    out["c09"].push_back(sch::c09OmpSegment<E>(VH_TSAN ? 4 : 8, VH_TSAN ? 40 : 300, VH_TSAN));
#if !VH_TSAN
    out["c08"].push_back(sch::c08ExecSegment<E>(VH_PER ? 6 : 12, VH_PER ? 100 : 300));
#if VH_PER
    out["c10"].push_back(sch::c10OmpSegment<E>(10, 150));
#endif
    out["c12"].push_back(sch::c12ExecSegment<E>(VH_PER ? 12 : 24, VH_PER ? 180 : 600));
#endif
    out["c18"].push_back(sch::c18OmpSegment<E>(VH_TSAN ? 4 : 8, VH_TSAN ? 40 : 300, VH_TSAN));
}
