// One translation unit per (VH_DIM, VH_PER): registers the segments of the sequential single-tree engine.
#include "per_core.hpp"

#ifndef VH_DIM
#error "VH_DIM required"
#endif
#ifndef VH_PER
#define VH_PER 0
#endif

#define VH_CAT2(a, b, c) a##b##_##c
#define VH_CAT(a, b, c) VH_CAT2(a, b, c)
#define VH_FN VH_CAT(vh_fmm_segments_d, VH_DIM, VH_PER)

void VH_FN(std::map<std::string, std::vector<fmm::Segment>>& out) {
    using E = fmm::Env<double, VH_DIM, (VH_PER != 0)>;
    constexpr int D = VH_DIM;
#if !VH_PER
    // bounded-exhaustive slices
    if (D == 1) for (long H : {2L, 3L, 4L, 5L}) out["c01"].push_back(fmm::c01EnumSegment<E>(H));
    if (D == 2) for (long H : {2L, 3L}) out["c01"].push_back(fmm::c01EnumSegment<E>(H));
    if (D == 3) out["c01"].push_back(fmm::c01EnumSegment<E>(2));
    out["c01"].push_back(fmm::c01RandomSegment<E>(80, 5000));
    out["c01"].push_back(fmm::c01LargeSegment<E>(D == 4 ? 1 : 2, 12));
#endif
    out["c02"].push_back(fmm::c02RandomSegment<E>(VH_PER ? 60 : 120, VH_PER ? 1500 : 4000));
    out["c08"].push_back(fmm::c08Segment<E>(VH_PER ? 10 : 25, VH_PER ? 200 : 500));
    out["c12"].push_back(fmm::c12Segment<E>(VH_PER ? 12 : 30, VH_PER ? 300 : 900));
    out["c09"].push_back(fmm::c09SeqSegment<E>(VH_PER ? 20 : 50, VH_PER ? 600 : 2500));
#if VH_PER
    out["c10"].push_back(fmm::c10Segment<E>(D == 3 ? 45 : 36, D == 3 ? 700 : 1000));
#endif
}
