// One translation unit per (VH_DIM, VH_PER): registers the segments of the sequential single-tree engine.
#include "per_core.hpp"
#include "cnt_core.hpp"

#ifndef VH_DIM
#error "VH_DIM required"
#endif
#ifndef VH_PER
#define VH_PER 0
#endif

#define VH_CAT2(a, b, c) a##b##_##c
#define VH_CAT(a, b, c) VH_CAT2(a, b, c)
#define VH_FN VH_CAT(vh_fmm_segments_d, VH_DIM, VH_PER)

#ifdef VH_HILBERT
#include "spacial/tbfhilbertspaceindex.hpp"
void vh_fmm_segments_hilbert(std::map<std::string, std::vector<fmm::Segment>>& out) {
    using E = fmm::Env<double, 3, false, TbfHilbertSpaceIndex<3, TbfSpacialConfiguration<double, 3>, false>>;
    out["c02"].push_back(fmm::c02RandomSegment<E>(60, 1500, true));
    // exactly-once still has to hold with the Hilbert ordering (per-pair counts; cell-level geometry is the known finding of C11)
    fmm::Segment s; s.name = "c01-random-hilbert-D3";
    s.count = [](bool th) { return th ? 1500L : 60L; };
    s.run = [](long kk, uint64_t seed, bool, vh::Result& res) {
        vh::Rng r(vh::mix(seed ^ 0xC01B, uint64_t(kk)));
        auto c = fmm::randomConf<E>(r, vh::mix(seed, kk), vp::PSET_N);
        res.desc = fmm::confDesc<E>(c);
        bool nt = false; uint64_t occ = 0;
        fmm::runSetC01<E>(c, res, nt, occ, false);
        res.nontrivial = nt; res.sig = fmm::confSig<E>(c, occ); res.ev("configurations");
    };
    out["c01"].push_back(s);
    // target/source mode with the Hilbert ordering: per-pair counts (each target gets each source exactly once); the group list builders
    // are called there with the "existence is tested at use" convention, which single-tree runs never exercise
    fmm::Segment t; t.name = "c09-seq-hilbert-D3";
    t.count = [](bool th) { return th ? 1200L : 40L; };
    t.run = [](long kk, uint64_t seed, bool, vh::Result& res) {
        vh::Rng r(vh::mix(seed ^ 0xC09B, uint64_t(kk)));
        auto c = fmm::randomTsmConf<E>(r, vh::mix(seed, kk), 60, 1);   // the disjoint-halves relation draws up to twice as many: stays below the 128 ids of the per-pair probe
        res.desc = fmm::tsmDesc<E>(c) + " executor=TbfAlgorithmTsm";
        bool nt = false;
        fmm::runSetTsm<E>(c, res, [&](auto& tree, const auto& cfg) { TbfAlgorithmTsm<double, typename E::SetKernel, typename E::Space> a(cfg, c.upper); a.execute(tree); }, nt, false);
        res.nontrivial = nt; res.sig = "tsm-hilbert:" + vh::str(vh::mix(c.seed, 4));
    };
    out["c09"].push_back(t);
}
#else
void VH_FN(std::map<std::string, std::vector<fmm::Segment>>& out) {
    using E = fmm::Env<double, VH_DIM, (VH_PER != 0)>;
    constexpr int D = VH_DIM;
#if !VH_PER
    // bounded-exhaustive slices
    if (D == 1) for (long H : {2L, 3L, 4L, 5L}) out["c01"].push_back(fmm::c01EnumSegment<E>(H));
    if (D == 2) for (long H : {2L, 3L}) out["c01"].push_back(fmm::c01EnumSegment<E>(H));
    if (D == 3) out["c01"].push_back(fmm::c01EnumSegment<E>(2));
    out["c01"].push_back(fmm::c01RandomSegment<E>(80, 5000));
    out["c01"].push_back(fmm::c01LargeSegment<E>(D == 4 ? 1 : 2, 12));
#endif
    out["c02"].push_back(fmm::c02RandomSegment<E>(VH_PER ? 60 : 120, VH_PER ? 1500 : 4000));
    out["c08"].push_back(fmm::c08Segment<E>(VH_PER ? 10 : 25, VH_PER ? 200 : 500));
    out["c12"].push_back(fmm::c12Segment<E>(VH_PER ? 12 : 30, VH_PER ? 300 : 900));
    out["c13"].push_back(fmm::c13PolySegment<E>(VH_PER ? 10 : 25, VH_PER ? 300 : 1200));
    out["c18"].push_back(fmm::c18SeqSegment<E>(VH_PER ? 15 : 45, VH_PER ? 400 : 1500));
    out["c09"].push_back(fmm::c09SeqSegment<E>(VH_PER ? 20 : 50, VH_PER ? 600 : 2500));
#if VH_PER
    out["c10"].push_back(fmm::c10Segment<E>(D == 3 ? 45 : 36, D == 3 ? 700 : 1000));
    out["c08"].push_back(fmm::c08PeriodicSegment<E>(D == 3 ? 10 : 8, D == 3 ? 150 : 200));
#endif
}
#endif
