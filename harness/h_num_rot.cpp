// C04: rotation kernel FMM against the long double direct sum. One TU per (VH_P, VH_REAL).
#include "num_core.hpp"
#include "kernels/rotationkernel/FRotationKernel.hpp"

#ifndef VH_P
#error "VH_P required"
#endif
#if VH_REALF
using Real = float;
#else
using Real = double;
#endif
#define VH_CAT2(a, b, c) a##b##_##c
#define VH_CAT(a, b, c) VH_CAT2(a, b, c)
#define VH_FN VH_CAT(vh_num_segments_rot, VH_P, VH_REALF)

namespace {
using namespace num;
constexpr int P = VH_P;
constexpr long VS = ((P + 2) * (P + 1)) / 2;
using Cell = std::array<std::complex<Real>, VS>;
using Cfg = tbx::Config<Real, 3>;
using SpaceN = tbx::Morton<Real, 3, false>;
using SpaceP = tbx::Morton<Real, 3, true>;
template <class Space> using Tree = TbfTree<Real, Real, 4, Real, 4, Cell, Cell, Space>;
template <class Space> using Kernel = FRotationKernel<Real, P, Space>;
const std::string KEY = std::string("rot.") + realName<Real>() + ".P" + vh::str(P);

struct RunCfg { long bs; bool ogp; int exec; /*0 seq, 1 omp-shim*/ int threads; int policy; };

template <class Space> std::vector<std::array<Real, 4>> runFmm(const Cfg& cfg, const Parts4<Real>& parts, const RunCfg& rc, long upper) {
    Tree<Space> tree(cfg, parts, rc.bs, rc.ogp);
    if (rc.exec == 0) { auto algo = std::make_unique<TbfAlgorithm<Real, Kernel<Space>, Space>>(cfg, upper); algo->execute(tree); }
    else {
        if (getenv("VH_FORCE_WAVE")) vsched::configure(std::max(4, rc.threads), vsched::WAVE_RANDOM, 7); else vsched::configure(rc.threads, rc.policy, 7);
        auto algo = std::make_unique<TbfOpenmpAlgorithm<Real, Kernel<Space>, Space>>(cfg, upper); algo->execute(tree);
    }
    return rhsByIndex<Real>(tree, long(parts.size()));
}

void accuracyCase(long kk, uint64_t seed, bool th, Result& res) {
    vh::Rng r(vh::mix(seed ^ 0xC04, uint64_t(kk) * 64 + P * 2 + VH_REALF));
    const long maxH = th ? 7 : 5;
    const long H = r.range(1, maxH);
    auto geo = tbx::genGeo<Real, 3>(r, H, true, int(r.below(4)));
    const Cfg cfg(H, geo.width, geo.center);
    const int dists[] = {tbx::D_UNIFORM, tbx::D_CLUSTER, tbx::D_LATTICE, tbx::D_FACES, tbx::D_BOXFACES};
    const int dist = dists[r.below(5)];
    const long N = (th ? r.range(200, P >= 12 ? 1500 : 4000) : r.range(100, P >= 8 ? 600 : 1500));
    const int sign = ((kk / 4) % 3 == 0) ? 3 : int(r.below(3));   // 3 = neutral +q/-q pairs sharing a leaf (cells with zero net charge)
    const std::string cls = (dist == tbx::D_UNIFORM || dist == tbx::D_CLUSTER) ? ".smooth" : ".edge"; // points on faces/corners are the worst case of the expansions
    const Real minSep = Real(double(geo.width[0]) * 1e-4);
    const auto parts = genCharged<Real>(r, cfg, dist, N, sign, minSep, sizeof(Real) == 4 ? 1e-3 : 1e-6);
    const long n = long(parts.size());
    const RunCfg rc{tbx::blockSizesFor(n, false)[r.below(tbx::blockSizesFor(n, false).size())], r.coin(), 0, 1, 0};
    res.desc = KEY + " height=" + vh::str(H) + " box=" + geo.name + " width=" + vh::str((double)geo.width[0]) + " N=" + vh::str(n) + " dist=" + vh::str(dist) + " charges=" + (sign == 0 ? "+" : sign == 1 ? "-" : sign == 3 ? "neutral-pairs" : "+-") + " blockSize=" + vh::str(rc.bs) + " ogp=" + vh::str(rc.ogp);
    vh::announce(res.desc);
    if (n < 2) { res.skipped = true; res.skipReason = "fewer than 2 distinct particles"; return; }
    const auto got = runFmm<SpaceN>(cfg, parts, rc, 2);
    const auto which = sampleTargets(r, n, 1500, 300);
    std::array<Real, 3> w{geo.width[0], geo.width[1], geo.width[2]};
    const Ref R = reference<Real>(parts, parts, which, true, 0, 0, w);
    const Errs e = errorsAgainst<Real>(got, which, R);
    if (!e.finite) res.fail("c04:not-finite", res.desc);
    recordMax(res, KEY + ".pot" + cls, e.pot); recordMax(res, KEY + ".force" + cls, e.force);
    if (e.pot > boundOf(KEY + ".pot" + cls, res)) res.fail("c04:potential-error-above-bound", res.desc + " err=" + vh::str(e.pot) + " bound=" + vh::str(boundOf(KEY + ".pot" + cls, res)));
    if (e.force > boundOf(KEY + ".force" + cls, res)) res.fail("c04:force-error-above-bound", res.desc + " err=" + vh::str(e.force) + " bound=" + vh::str(boundOf(KEY + ".force" + cls, res)));
    res.ev("targets-compared", (long long)which.size()); res.ev("fmm-runs");
    // invariance: other grouping / executor agree to rounding
    if (kk % 3 == 0) {
        const auto bss = tbx::blockSizesFor(n, false);
        RunCfg rc2{bss[r.below(bss.size())], !rc.ogp, getenv("VH_FORCE_WAVE") ? 1 : int(kk % 2), int(r.pick(std::vector<int>{1, 2, 4, 16})), int(r.below(vsched::NB_POLICIES))};
        const auto got2 = runFmm<SpaceN>(cfg, parts, rc2, 2);
        const Errs d = diffNormalised<Real>(got, got2, which, R);
        recordMax(res, KEY + ".inv", std::max(d.pot, d.force));
        if (std::max(d.pot, d.force) > boundOf(KEY + ".inv", res)) res.fail("c04:result-depends-on-grouping-or-executor", res.desc + " vs blockSize=" + vh::str(rc2.bs) + " ogp=" + vh::str(rc2.ogp) + " exec=" + (rc2.exec ? std::string("openmp-shim/") + vsched::policyName(rc2.policy) + "/T" + vh::str(rc2.threads) : std::string("sequential")) + " diff=" + vh::str(std::max(d.pot, d.force)));
        res.ev("invariance-pairs"); res.ev("fmm-runs");
    }
    // linearity of the potential in the source charges: R(a q1 + b q2) = a R(q1) + b R(q2) (forces: target charge fixed is bilinear -> use potentials)
    if (kk % 5 == 1) {
        Parts4<Real> p1 = parts, p2 = parts, p3 = parts;
        const Real a = Real(2), b = Real(-0.5);
        for (long i = 0; i < n; ++i) { const Real q2 = Real((r.coin() ? 1.0 : -1.0) * (0.1 + r.unit())); p2[i][3] = q2; p3[i][3] = a * p1[i][3] + b * q2; }
        const auto g1 = runFmm<SpaceN>(cfg, p1, rc, 2), g2 = runFmm<SpaceN>(cfg, p2, rc, 2), g3 = runFmm<SpaceN>(cfg, p3, rc, 2);
        const Ref R3 = reference<Real>(p3, p3, which, true, 0, 0, w);
        const Ref R1 = reference<Real>(p1, p1, which, true, 0, 0, w), R2 = reference<Real>(p2, p2, which, true, 0, 0, w);
        double worst = 0;
        for (size_t k = 0; k < which.size(); ++k) {
            const long i = which[k];
            const LD lin = (LD)a * g1[i][3] + (LD)b * g2[i][3];
            const LD norm = std::fabs((LD)a) * R1.sp[k] + std::fabs((LD)b) * R2.sp[k];
            if (norm > 0) worst = std::max(worst, double(std::fabs((LD)g3[i][3] - lin) / norm));
        }
        recordMax(res, KEY + ".lin", worst);
        if (worst > boundOf(KEY + ".lin", res)) res.fail("c04:potential-not-linear-in-charges", res.desc + " deviation=" + vh::str(worst));
        res.ev("linearity-checks"); res.ev("fmm-runs", 3);
    }
    res.sig = KEY + ",H" + vh::str(H) + ",N" + vh::str(n) + ",d" + vh::str(dist) + "," + vh::str(kk); res.nontrivial = H >= 3;
}

void periodicCase(long kk, uint64_t seed, bool th, Result& res) {
    using namespace TbfAlgorithmUtils;
    vh::Rng r(vh::mix(seed ^ 0xC04B, uint64_t(kk) * 64 + P * 2 + VH_REALF));
    // one periodic case in four: a single-leaf tree with extraLevels -1 (the 27 nearest images through P2P alone; the leaf is its own
    // periodic neighbour, so the mutual routine receives the same result arrays for both sides)
    const bool singleLeaf = ((kk / 5) % 4 == 1);
    const long H = singleLeaf ? 1 : r.range(2, th ? 5 : 4);
    const long extra = singleLeaf ? -1 : r.range(-1, th ? 2 : 1);
    auto geo = tbx::genGeo<Real, 3>(r, H, true, int(r.below(3)));
    const Cfg cfg(H, geo.width, geo.center);
    const long N = r.range(30, th ? 200 : 90);
    const auto parts = genCharged<Real>(r, cfg, int(r.below(2)), N, int(r.below(3)), Real(double(geo.width[0]) * 1e-3), sizeof(Real) == 4 ? 1e-3 : 1e-6);
    const long n = long(parts.size());
    res.desc = KEY + " periodic height=" + vh::str(H) + " extraLevels=" + vh::str(extra) + " box=" + geo.name + " N=" + vh::str(n);
    vh::announce(res.desc);
    if (n < 2) { res.skipped = true; res.skipReason = "too few particles"; return; }
    Tree<SpaceP> tree(cfg, parts, tbx::blockSizesFor(n, false)[r.below(3)], r.coin());
    long lo, hi;
    {
        auto algo = std::make_unique<TbfAlgorithm<Real, Kernel<SpaceP>, SpaceP>>(cfg, TbfDefaultLastLevelPeriodic);
        auto top = std::make_unique<TbfAlgorithmPeriodicTopTree<Real, Kernel<SpaceP>, Cell, Cell, SpaceP>>(cfg, extra);
        algo->execute(tree, TbfBottomToTopStages); top->execute(tree); algo->execute(tree, TbfTransferStages); algo->execute(tree, TbfTopToBottomStages);
        const auto iv = top->getRepetitionsIntervals(); lo = iv.first[0]; hi = iv.second[0];
    }
    const auto got = rhsByIndex<Real>(tree, n);
    const auto which = sampleTargets(r, n, 60, 60);
    std::array<Real, 3> w{geo.width[0], geo.width[1], geo.width[2]};
    const Ref R = reference<Real>(parts, parts, which, true, lo, hi, w);
    const Errs e = errorsAgainst<Real>(got, which, R);
    if (!e.finite) res.fail("c04:not-finite", res.desc);
    recordMax(res, KEY + ".per.pot", e.pot); recordMax(res, KEY + ".per.force", e.force);
    if (e.pot > boundOf(KEY + ".per.pot", res)) res.fail("c04:periodic-potential-error-above-bound", res.desc + " err=" + vh::str(e.pot) + " images [" + vh::str(lo) + "," + vh::str(hi) + "]");
    if (e.force > boundOf(KEY + ".per.force", res)) res.fail("c04:periodic-force-error-above-bound", res.desc + " err=" + vh::str(e.force));
    res.ev("periodic-runs"); res.ev("targets-compared", (long long)which.size());
    res.sig = KEY + ",per,H" + vh::str(H) + ",x" + vh::str(extra) + "," + vh::str(kk); res.nontrivial = true;
}
// particles exactly on the vertical axis through their leaf centre (incl. the centre itself) and boxes far from the origin:
// only finiteness is judged here; both are announced as contexts so that a failure is keyed by the input region
void specialCase(long kk, uint64_t seed, bool, Result& res) {
    vh::Rng r(vh::mix(seed ^ 0xC04D, uint64_t(kk) * 64 + P * 2 + VH_REALF));
    const long H = r.range(2, 5);
    const bool far = (kk % 2) == 1;
    auto geo = tbx::genGeo<Real, 3>(r, H, true, far ? 4 : (r.coin() ? 0 : 3));
    const Cfg cfg(H, geo.width, geo.center);
    const int dist = far ? int(tbx::D_FACES) : (r.coin() ? 100 : 101);
    const auto parts = genCharged<Real>(r, cfg, dist, r.range(50, 300), int(r.below(3)), Real(double(geo.width[0]) * 1e-4));
    const long n = long(parts.size());
    res.desc = KEY + (far ? " box far from the origin" : " particles on the polar axis of their leaf (cell centres / cell axes)") + " height=" + vh::str(H) + " box=" + geo.name + " centre=" + vh::str((double)geo.center[0]) + " width=" + vh::str((double)geo.width[0]) + " N=" + vh::str(n) + " dist=" + vh::str(dist);
    vh::announce(res.desc);
    printf("CTX %s\n", far ? "far-box" : "polar-axis"); fflush(stdout);
    if (n < 2) { res.skipped = true; res.skipReason = "too few"; return; }
    const RunCfg rc{tbx::blockSizesFor(n, false)[r.below(3)], r.coin(), 0, 1, 0};
    const auto got = runFmm<SpaceN>(cfg, parts, rc, 2);
    bool finite = true; for (auto& g : got) for (int v = 0; v < 4; ++v) if (!std::isfinite((double)g[v])) finite = false;
    if (!finite) res.fail(std::string("c04:not-finite@") + (far ? "far-box" : "polar-axis"), res.desc);
    res.ev("special-input-runs");
    res.sig = KEY + ",special," + vh::str(kk); res.nontrivial = true;
}
} // namespace

void VH_FN(std::map<std::string, std::vector<num::Segment>>& out) {
    num::Segment s; s.name = "c04-" + KEY;
    s.count = [](bool th) { return th ? (P >= 12 ? 120L : 300L) : (P >= 12 ? 40L : 80L); };
    s.run = [](long kk, uint64_t seed, bool th, vh::Result& res) { if (kk % 4 == 3) periodicCase(kk, seed, th, res); else accuracyCase(kk, seed, th, res); };
    out["c04"].push_back(s);
    num::Segment s2; s2.name = "c04-special-" + KEY;
    s2.count = [](bool th) { return th ? 12L : 2L; };
    s2.run = [](long kk, uint64_t seed, bool th, vh::Result& res) { specialCase(kk, seed, th, res); };
    out["c04"].push_back(s2);
}
