// Scheduler core + GOMP ABI front-end (links instead of libgomp). Only mutex/condvar synchronisation, so that
// ThreadSanitizer understands all of it.
#include "sched.hpp"

#include <deque>
#include <algorithm>
#include <cstring>
#include <cstdlib>
#include <cstdio>
#include <set>

namespace vsched {

namespace {

struct Rng {
    uint64_t s;
    uint64_t next() { uint64_t z = (s += 0x9E3779B97F4A7C15ULL); z = (z ^ (z >> 30)) * 0xBF58476D1CE4E5B9ULL; z = (z ^ (z >> 27)) * 0x94D049BB133111EBULL; return z ^ (z >> 31); }
    uint64_t below(uint64_t n) { return n ? next() % n : 0; }
};

struct Task {
    TaskRec rec;
    std::function<void()> body;
    int pending = 0;
    std::vector<long> succs;
    bool done = false;
};

struct AddrState {
    std::vector<long> lastOut;      // last writer, or the current group of commuters
    bool lastOutIsCommute = false;
    std::vector<long> groupPreds;   // what the commute group depends on
    std::vector<long> readers;      // readers since lastOut
};

struct State {
    std::mutex mu;
    std::condition_variable cvWork, cvDone;
    int T = 1; int policy = EAGER_FIFO; Rng rng{1};
    std::deque<Task> tasks;
    std::map<const void*, AddrState> addr;
    std::vector<long> ready;
    long nDone = 0;
    bool active = false;
    bool creating = false;
    std::vector<long> assigned;     // per worker: task id to run, -1 none
    long outstanding = 0;           // assigned and not yet finished in the current step
    bool shutdown = false;
    std::vector<std::thread> workers;
    std::thread::id creator;
    Log log;
    Log last;
};

State& S() { static State s; return s; }

thread_local long tlsTask = -1;
thread_local long tlsWorker = 0;

void addPred(Task& t, long p) { if (p != t.rec.id && std::find(t.rec.preds.begin(), t.rec.preds.end(), p) == t.rec.preds.end()) t.rec.preds.push_back(p); }

// mu held
void registerDeps(State& st, Task& t) {
    for (const auto& a : t.rec.acc) {
        AddrState& as = st.addr[a.addr];
        if (a.mode == R) {
            for (long p : as.lastOut) addPred(t, p);
            as.readers.push_back(t.rec.id);
        } else if (a.mode == W) {
            for (long p : as.readers) addPred(t, p);
            for (long p : as.lastOut) addPred(t, p);
            as.lastOut.assign(1, t.rec.id); as.lastOutIsCommute = false; as.readers.clear(); as.groupPreds.clear();
        } else {
            if (as.lastOutIsCommute && as.readers.empty() && std::find(as.lastOut.begin(), as.lastOut.end(), t.rec.id) == as.lastOut.end()) {
                for (long p : as.groupPreds) addPred(t, p);
                for (long q : as.lastOut) { t.rec.exclusive.push_back(q); st.tasks[q].rec.exclusive.push_back(t.rec.id); }
                as.lastOut.push_back(t.rec.id);
            } else {
                std::vector<long> gp = as.readers; gp.insert(gp.end(), as.lastOut.begin(), as.lastOut.end());
                for (long p : gp) addPred(t, p);
                as.groupPreds = gp; as.lastOut.assign(1, t.rec.id); as.lastOutIsCommute = true; as.readers.clear();
            }
        }
    }
    // a task that is exclusive with one of its own predecessors is simply ordered
    t.pending = 0;
    for (long p : t.rec.preds) { if (!st.tasks[p].done) { st.tasks[p].succs.push_back(t.rec.id); ++t.pending; } }
    if (t.pending == 0) st.ready.push_back(t.rec.id);
}

void runBody(State& st, long id, int worker) {
    Task& t = st.tasks[id];
    tlsTask = id;
    const long savedWorker = tlsWorker; tlsWorker = worker;
    t.body();
    tlsWorker = savedWorker;
    tlsTask = -1;
}

long pickIndex(State& st, const std::vector<long>& cand) {
    // returns index into cand according to the policy
    switch (st.policy) {
    case EAGER_FIFO: case DEFER_ALL_FIFO: { size_t b = 0; for (size_t i = 1; i < cand.size(); ++i) if (cand[i] < cand[b]) b = i; return long(b); }
    case EAGER_LIFO: case DEFER_ALL_LIFO: { size_t b = 0; for (size_t i = 1; i < cand.size(); ++i) if (cand[i] > cand[b]) b = i; return long(b); }
    case PRIORITY: { size_t b = 0; for (size_t i = 1; i < cand.size(); ++i) { const int pi = st.tasks[cand[i]].rec.priority, pb = st.tasks[cand[b]].rec.priority; if (pi > pb || (pi == pb && cand[i] < cand[b])) b = i; } return long(b); }
    case PRIORITY_INVERTED: { size_t b = 0; for (size_t i = 1; i < cand.size(); ++i) { const int pi = st.tasks[cand[i]].rec.priority, pb = st.tasks[cand[b]].rec.priority; if (pi < pb || (pi == pb && cand[i] > cand[b])) b = i; } return long(b); }
    default: return long(st.rng.below(cand.size()));
    }
}

// One scheduling step, executed by the coordinator (the creator thread). mu held on entry and exit.
void step(State& st, std::unique_lock<std::mutex>& lk) {
    if (st.ready.empty()) return;
    const int width = policyWave(st.policy) ? st.T : 1;
    std::vector<long> chosen;
    std::vector<long> pool = st.ready;
    while (!pool.empty() && int(chosen.size()) < width) {
        const long i = pickIndex(st, pool);
        const long id = pool[i];
        pool.erase(pool.begin() + i);
        bool excl = false;
        for (long c : chosen) if (std::find(st.tasks[id].rec.exclusive.begin(), st.tasks[id].rec.exclusive.end(), c) != st.tasks[id].rec.exclusive.end()) excl = true;
        if (!excl) chosen.push_back(id);
    }
    for (long id : chosen) st.ready.erase(std::find(st.ready.begin(), st.ready.end(), id));
    // distinct random workers
    std::vector<int> ws(st.T); for (int i = 0; i < st.T; ++i) ws[i] = i;
    for (int i = st.T - 1; i > 0; --i) std::swap(ws[i], ws[st.rng.below(uint64_t(i + 1))]);
    const long stepNo = st.log.steps++;
    st.log.maxOverlap = std::max<long>(st.log.maxOverlap, long(chosen.size()));
    long mine = -1;
    for (size_t k = 0; k < chosen.size(); ++k) {
        Task& t = st.tasks[chosen[k]];
        t.rec.step = stepNo; t.rec.worker = ws[k];
        st.log.order.push_back(chosen[k]);
        if (st.creating) st.log.tasksRunDuringCreation++;
        if (ws[k] == 0) mine = chosen[k];
        else { st.assigned[ws[k]] = chosen[k]; ++st.outstanding; }
    }
    if (st.outstanding) st.cvWork.notify_all();
    if (mine >= 0) { lk.unlock(); runBody(st, mine, 0); lk.lock(); }
    st.cvDone.wait(lk, [&] { return st.outstanding == 0; });
    for (long id : chosen) {
        Task& t = st.tasks[id];
        t.done = true; ++st.nDone; t.body = nullptr;
        for (long s : t.succs) if (--st.tasks[s].pending == 0) st.ready.push_back(s);
    }
}

void drain(State& st, std::unique_lock<std::mutex>& lk) {
    while (st.nDone < long(st.tasks.size())) {
        if (st.ready.empty()) { fprintf(stderr, "vsched: deadlock - %ld tasks pending and none ready\n", long(st.tasks.size()) - st.nDone); abort(); }
        step(st, lk);
    }
}

void workerLoop(int w) {
    State& st = S();
    tlsWorker = w;
    std::unique_lock<std::mutex> lk(st.mu);
    while (true) {
        st.cvWork.wait(lk, [&] { return st.shutdown || st.assigned[w] >= 0; });
        if (st.assigned[w] >= 0) {
            const long id = st.assigned[w];
            lk.unlock();
            runBody(st, id, w);
            lk.lock();
            st.assigned[w] = -1;
            if (--st.outstanding == 0) st.cvDone.notify_all();
            continue;
        }
        if (st.shutdown) return;
    }
}

int cfgThreads = 1, cfgPolicy = EAGER_FIFO; uint64_t cfgSeed = 1;

void startRegion(State& st) {
    st.T = std::max(1, cfgThreads); st.policy = cfgPolicy; st.rng.s = cfgSeed * 0x9E3779B97F4A7C15ULL + 12345;
    st.tasks.clear(); st.addr.clear(); st.ready.clear(); st.nDone = 0; st.outstanding = 0; st.shutdown = false;
    st.assigned.assign(st.T, -1);
    st.log = Log(); st.log.threads = st.T; st.log.policy = st.policy; st.log.seed = cfgSeed;
    st.active = true; st.creator = std::this_thread::get_id();
}

void finishRegion(State& st) {
    st.active = false;
    st.log.tasks.clear();
    for (auto& t : st.tasks) st.log.tasks.push_back(t.rec);
    st.last = st.log;
    st.tasks.clear(); st.addr.clear();
}

} // namespace

void configure(int threads, int policy, uint64_t seed) { cfgThreads = threads; cfgPolicy = policy; cfgSeed = seed; }
int configuredThreads() { return cfgThreads; }
void runAsWorker(int worker, const std::function<void()>& f) { const long saved = tlsWorker; tlsWorker = worker; f(); tlsWorker = saved; }
const Log& lastLog() { return S().last; }
long currentTask() { return tlsTask; }
long currentWorker() { return tlsWorker; }

void submit(std::function<void()> body, const std::vector<Access>& acc, int priority, const std::string& label) {
    State& st = S();
    std::unique_lock<std::mutex> lk(st.mu);
    if (!st.active) { lk.unlock(); body(); return; } // no team: undeferred, like libgomp
    const bool master = std::this_thread::get_id() == st.creator;
    if (!master) st.log.tasksCreatedByNonMaster++;
    st.tasks.emplace_back();
    Task& t = st.tasks.back();
    t.rec.id = long(st.tasks.size()) - 1; t.rec.acc = acc; t.rec.priority = priority; t.rec.label = label;
    t.body = std::move(body);
    registerDeps(st, t);
    if (master && !policyDefers(st.policy) && tlsTask < 0) {
        st.creating = true;
        int n = 1;
        if (st.policy == EAGER_RANDOM || st.policy == WAVE_EAGER) n = int(st.rng.below(3));
        if (st.policy == EAGER_LIFO) n = (st.rng.below(4) == 0) ? 2 : 0; // let a backlog build up, then take the newest
        for (int i = 0; i < n; ++i) step(st, lk);
        st.creating = false;
    }
}

void beginGraph() { State& st = S(); std::unique_lock<std::mutex> lk(st.mu); startRegion(st); for (int w = 1; w < st.T; ++w) st.workers.emplace_back(workerLoop, w); }
void waitAll() { State& st = S(); std::unique_lock<std::mutex> lk(st.mu); if (st.active && tlsTask < 0 && std::this_thread::get_id() == st.creator) drain(st, lk); }
void endGraph() {
    State& st = S();
    {
        std::unique_lock<std::mutex> lk(st.mu);
        drain(st, lk);
        st.shutdown = true; st.cvWork.notify_all();
    }
    for (auto& th : st.workers) th.join();
    st.workers.clear();
    std::unique_lock<std::mutex> lk(st.mu);
    finishRegion(st);
}

} // namespace vsched

// ------------------------------------------------------------------------------------------------ GOMP ABI
#ifndef VSCHED_NO_GOMP
extern "C" {

int omp_get_thread_num(void) { return int(vsched::currentWorker()); }
int omp_get_max_threads(void) { return vsched::cfgThreads; }
int omp_get_num_threads(void) { return vsched::S().active ? vsched::S().T : 1; }

void GOMP_parallel(void (*fn)(void*), void* data, unsigned /*num_threads*/, unsigned /*flags*/) {
    using namespace vsched;
    State& st = S();
    {
        std::unique_lock<std::mutex> lk(st.mu);
        startRegion(st);
        // every thread of the team executes the region body (non-master threads fall through '#pragma omp master')
        for (int w = 1; w < st.T; ++w) st.workers.emplace_back([fn, data, w] { tlsWorker = w; fn(data); workerLoop(w); });
    }
    tlsWorker = 0;
    fn(data);
    endGraph(); // implicit barrier at the end of the region: all tasks complete
}

void GOMP_taskwait(void) { vsched::waitAll(); }

void GOMP_task(void (*fn)(void*), void* data, void (*cpyfn)(void*, void*), long arg_size, long arg_align, bool if_clause,
               unsigned flags, void** depend, int priority_arg, void* /*detach*/) {
    using namespace vsched;
    // copy the argument block exactly as libgomp does
    const size_t al = size_t(arg_align > 0 ? arg_align : 1);
    char* raw = static_cast<char*>(malloc(size_t(arg_size) + al));
    char* buf = reinterpret_cast<char*>((reinterpret_cast<uintptr_t>(raw) + al - 1) & ~(uintptr_t(al) - 1));
    if (cpyfn) cpyfn(buf, data); else memcpy(buf, data, size_t(arg_size));
    std::vector<Access> acc;
    if ((flags & 8u) && depend) {
        if (depend[0] != nullptr) { // old format: n, n_out, out..., in...
            const size_t n = reinterpret_cast<size_t>(depend[0]), nout = reinterpret_cast<size_t>(depend[1]);
            for (size_t i = 0; i < n; ++i) acc.push_back({depend[2 + i], i < nout ? W : R});
        } else {                    // OpenMP 5 format: 0, n, n_out, n_mutexinoutset, n_in, addresses...
            const size_t n = reinterpret_cast<size_t>(depend[1]), nout = reinterpret_cast<size_t>(depend[2]), nmtx = reinterpret_cast<size_t>(depend[3]);
            for (size_t i = 0; i < n; ++i) acc.push_back({depend[5 + i], i < nout ? W : (i < nout + nmtx ? COMMUTE : R)});
        }
    }
    const int prio = (flags & 16u) ? priority_arg : 0;
    auto body = [fn, buf, raw] { fn(buf); free(raw); };
    if (!if_clause) { body(); return; }
    submit(body, acc, prio);
}

} // extern "C"
#endif
