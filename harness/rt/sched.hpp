// Deterministic task scheduler used instead of libgomp (and by the mock Specx / StarPU front-ends).
// The harness configures a policy, the executor submits tasks through the runtime ABI/API, the scheduler runs
// them in a legal order on real pthreads and records what was declared and what was executed.
#ifndef VH_RT_SCHED_HPP
#define VH_RT_SCHED_HPP

#include <vector>
#include <functional>
#include <cstdint>
#include <string>
#include <mutex>
#include <condition_variable>
#include <thread>
#include <map>
#include <atomic>

namespace vsched {

enum Mode { R = 0, W = 1, COMMUTE = 2 };
struct Access { const void* addr; int mode; };

enum Policy {
    EAGER_FIFO = 0,      // run ready tasks in submission order, interleaved with task creation
    EAGER_LIFO,
    DEFER_ALL_FIFO,      // nothing runs before the creator reaches its final wait
    DEFER_ALL_LIFO,
    DEFER_RANDOM,        // deferred, random linear extension
    EAGER_RANDOM,        // random linear extension interleaved with creation
    PRIORITY,            // highest declared priority first (deferred)
    PRIORITY_INVERTED,   // lowest declared priority first (deferred)
    WAVE_RANDOM,         // maximal sets of mutually unordered ready tasks released together from a barrier
    WAVE_EAGER,          // same, interleaved with creation
    NB_POLICIES
};
inline const char* policyName(int p) {
    static const char* n[] = {"eager-fifo","eager-lifo","defer-all-fifo","defer-all-lifo","defer-random","eager-random","priority","priority-inverted","wave-random","wave-eager"};
    return (p >= 0 && p < NB_POLICIES) ? n[p] : "?";
}
inline bool policyDefers(int p) { return p == DEFER_ALL_FIFO || p == DEFER_ALL_LIFO || p == DEFER_RANDOM || p == PRIORITY || p == PRIORITY_INVERTED || p == WAVE_RANDOM; }
inline bool policyWave(int p) { return p == WAVE_RANDOM || p == WAVE_EAGER; }

struct TaskRec {
    long id = 0;
    std::vector<Access> acc;
    int priority = 0;
    std::vector<long> preds;        // declared dependency edges (task ids)
    std::vector<long> exclusive;    // commute partners (unordered but mutually exclusive)
    long step = -1;                 // logical time at which it ran
    int worker = -1;
    bool ranAfterRegion = false;
    long domain = 0;                // sibling domain the dependences were resolved in (OpenMP: generating task region)
    std::string label;
};

struct Log {
    std::vector<TaskRec> tasks;
    std::vector<long> order;        // execution order (by completion of scheduling decision)
    long steps = 0;
    long maxOverlap = 0;
    long tasksCreatedByNonMaster = 0;
    long tasksRunDuringCreation = 0;
    int threads = 0; int policy = 0; uint64_t seed = 0;
    uint64_t orderHash() const { uint64_t h = 1469598103934665603ULL; for (long t : order) { h ^= uint64_t(t) + 0x9E3779B97F4A7C15ULL; h *= 1099511628211ULL; } return h; }
};

// configuration for the next parallel region / task graph
void configure(int threads, int policy, uint64_t seed);
int configuredThreads();
void runAsWorker(int worker, const std::function<void()>& f); // run f on the calling thread with the given worker id (mock runtimes: per-worker initialisation)
const Log& lastLog();
long currentTask();      // id of the task the calling thread is executing, -1 outside tasks
long currentWorker();    // worker id of the calling thread (0 = master / outside)

// generic front-end used by the mock runtimes: submit a task with explicit accesses
void beginGraph();                                   // starts recording (like entering a parallel region), single creator thread
void submit(std::function<void()> body, const std::vector<Access>& acc, int priority, const std::string& label = "");
void waitAll();                                      // drain
void endGraph();

} // namespace vsched
#endif
