// Case runners of engine h_tree.
#ifndef VH_TREE_MODES_HPP
#define VH_TREE_MODES_HPP
#include "tree_core.hpp"

namespace tr {

// Adapters presenting the source / target half of a TbfTreeTsm with the single-tree accessor names.
template <class TT> struct SrcView {
    TT& t;
    long getHeight() const { return t.getHeight(); }
    const auto& getSpacialSystem() const { return t.getSpacialSystem(); }
    long getNbElementsPerGroup() const { return t.getNbElementsPerGroupSource(); }
    long getNbCellGroupsAtLevel(long L) const { return t.getNbCellGroupsAtLevelSource(L); }
    auto& getCellGroupsAtLevel(long L) { return t.getCellGroupsAtLevelSource(L); }
    const auto& getCellGroupsAtLevel(long L) const { return const_cast<const TT&>(t).getCellGroupsAtLevelSource(L); }
    const auto& getLeafGroups() const { return const_cast<const TT&>(t).getLeafGroupsSource(); }
    long getNbParticleGroups() const { return t.getNbParticleGroupsSource(); }
    auto& getParticleGroups() { return t.getParticleGroupsSource(); }
    const auto& getParticleGroups() const { return const_cast<const TT&>(t).getParticleGroupsSource(); }
    long getNbParticles() const { long n = 0; for (const auto& g : getParticleGroups()) n += g.getNbParticles(); return n; }
    auto findGroupWithCell(long L, long i) { return t.findGroupWithCellSource(L, i); }
    auto findGroupWithLeaf(long i) { return t.findGroupWithLeafSource(i); }
    template <class Fn> void applyToAllLeaves(Fn&& f) const { const_cast<const TT&>(t).applyToAllLeavesSource(f); }
    template <class Fn> void applyToAllCells(Fn&& f) const { const_cast<const TT&>(t).applyToAllCellsSource(f); }
    auto getAllParticlesData() { return t.getAllParticlesDataSource(); }
    auto getAllParticlesRhs() { return std::unique_ptr<std::array<void_data, 0>[]>(new std::array<void_data, 0>[1]); }
};
template <class TT> struct TgtView {
    TT& t;
    long getHeight() const { return t.getHeight(); }
    const auto& getSpacialSystem() const { return t.getSpacialSystem(); }
    long getNbElementsPerGroup() const { return t.getNbElementsPerGroupTarget(); }
    long getNbCellGroupsAtLevel(long L) const { return t.getNbCellGroupsAtLevelTarget(L); }
    auto& getCellGroupsAtLevel(long L) { return t.getCellGroupsAtLevelTarget(L); }
    const auto& getCellGroupsAtLevel(long L) const { return const_cast<const TT&>(t).getCellGroupsAtLevelTarget(L); }
    const auto& getLeafGroups() const { return const_cast<const TT&>(t).getLeafGroupsTarget(); }
    long getNbParticleGroups() const { return t.getNbParticleGroupsTarget(); }
    auto& getParticleGroups() { return t.getParticleGroupsTarget(); }
    const auto& getParticleGroups() const { return const_cast<const TT&>(t).getParticleGroupsTarget(); }
    long getNbParticles() const { long n = 0; for (const auto& g : getParticleGroups()) n += g.getNbParticles(); return n; }
    auto findGroupWithCell(long L, long i) { return t.findGroupWithCellTarget(L, i); }
    auto findGroupWithLeaf(long i) { return t.findGroupWithLeafTarget(i); }
    template <class Fn> void applyToAllLeaves(Fn&& f) const { const_cast<const TT&>(t).applyToAllLeavesTarget(f); }
    template <class Fn> void applyToAllCells(Fn&& f) const { const_cast<const TT&>(t).applyToAllCellsTarget(f); }
    auto getAllParticlesData() { return t.getAllParticlesDataTarget(); }
    auto getAllParticlesRhs() { return t.getAllParticlesRhsTarget(); }
};
template <class F> using SrcFlavour = Flavour<typename F::Real, F::D, F::NV, typename F::Data, void_data, 0, typename F::Space>;

template <class F> std::string treeSig(const Input<F>& in, const typename F::Tree& tree) {
    uint64_t h = 3; long leaves = 0;
    for (const auto& g : tree.getParticleGroups()) for (long i = 0; i < g.getNbLeaves(); ++i) { h = vh::mix(h, uint64_t(g.getLeafSpacialIndex(i))); ++leaves; }
    std::ostringstream os; os << F::name() << ",H" << in.geo.H << ",bs" << in.blockSize << ",ogp" << in.ogp << ",N" << in.parts.size() << ",leaves" << leaves << ",occ" << std::hex << h;
    return os.str();
}

// second independent particle set inside the same box (target/source variant)
template <class F> Input<F> secondSet(vh::Rng& r, const Input<F>& a, long maxN) {
    Input<F> b = randomInput<F>(r, a.seed ^ 0x7517, maxN, false);
    // re-generate inside a's geometry
    Input<F> out = a; out.exactLeaf.clear();
    const typename F::Cfg cfg(a.geo.H, a.geo.width, a.geo.center);
    const int dist = int(r.below(tbx::D_NB)); out.dist = tbx::distName(dist);
    const long N = long(b.parts.size());
    out.parts.resize(N);
    tbx::DistState st; for (auto& x : st.c) x = r.unit(); for (auto& x : st.leaf) x = long(r.below(1u << 20));
    std::vector<std::array<typename F::Real, F::D>> prev; long n = 0, guard = 0;
    while (n < N) {
        auto pr = tbx::candidate<typename F::Real, F::D>(r, cfg, (++guard > 200 * N + 1000) ? int(tbx::D_UNIFORM) : dist, prev, st);
        std::array<typename F::Data, F::D> pd = toData<typename F::Data>(r, pr);
        if (!tbx::validPos<typename F::Real, F::D>(cfg, pd)) continue;
        for (int d = 0; d < F::D; ++d) out.parts[n][d] = pd[d];
        for (int v = F::D; v < F::NV; ++v) out.parts[n][v] = extraValue<typename F::Data>(a.seed + 77 + uint64_t(v), uint64_t(n));
        prev.push_back(pr); ++n;
    }
    return out;
}

//================================================================================================ C06
template <class F> Segment c06Segment(long nQ, long nT) {
    Segment s; s.name = "c06-" + F::name();
    s.count = [=](bool th) { return th ? nT : nQ; };
    s.run = [=](long kk, uint64_t seed, bool, Result& res) {
        vh::Rng r(vh::mix(seed ^ 0xC06, uint64_t(kk)));
        auto in = randomInput<F>(r, vh::mix(seed, kk), 300);
        res.desc = inputDesc<F>(in);
        const typename F::Cfg cfg(in.geo.H, in.geo.width, in.geo.center);
        if (kk % 4 != 3) {
            typename F::Tree tree(cfg, in.parts, in.blockSize, in.ogp);
            checkConstruction<F>(tree, in, res, "c06");
            res.sig = treeSig<F>(in, tree); res.nontrivial = in.parts.size() >= 2;
            if constexpr (F::NRHS > 0 && std::is_arithmetic<typename F::Rhs>::value) {
                // execution never alters symbolic data
                const uint64_t h0 = tbx::hashSymbolic(tree);
                TbfAlgorithm<typename F::Real, TbfTestKernel<typename F::Real, typename F::Space>, typename F::Space> algo(cfg, F::Space::IsPeriodic ? 1 : 2);
                algo.execute(tree);
                if (tbx::hashSymbolic(tree) != h0) res.fail("c06:symbolic-changed-by-execute", "sequential executor");
                checkConstruction<F>(tree, in, res, "c06-after-execute", false);
                res.ev("executions");
            }
        } else {
            // target/source trees
            auto in2 = secondSet<F>(r, in, 300);
            res.desc += " | tsm targets N=" + vh::str(in2.parts.size()) + " dist=" + in2.dist;
            typename F::TreeTsm tt(cfg, in.parts, in2.parts, in.blockSize, in.ogp);
            SrcView<typename F::TreeTsm> sv{tt}; TgtView<typename F::TreeTsm> tv{tt};
            Input<SrcFlavour<F>> inS; inS.geo = in.geo; inS.parts = in.parts; inS.exactLeaf = in.exactLeaf;
            checkConstruction<SrcFlavour<F>>(sv, inS, res, "c06-tsm-source");
            checkConstruction<F>(tv, in2, res, "c06-tsm-target");
            if constexpr (F::NRHS > 0 && std::is_arithmetic<typename F::Rhs>::value) {
                uint64_t h0 = 0, h1 = 0;
                auto hashAll = [&]() { uint64_t h = 5; for (long L = 0; L < tt.getHeight(); ++L) { for (const auto& g : tt.getCellGroupsAtLevelSource(L)) h = vh::fnv(g.getDataPtr(), g.getDataSize(), h); for (const auto& g : tt.getCellGroupsAtLevelTarget(L)) h = vh::fnv(g.getDataPtr(), g.getDataSize(), h); }
                    for (const auto& g : tt.getParticleGroupsSource()) h = vh::fnv(g.getDataPtr(), g.getDataSize(), h); for (const auto& g : tt.getParticleGroupsTarget()) h = vh::fnv(g.getDataPtr(), g.getDataSize(), h); return h; };
                h0 = hashAll();
                TbfAlgorithmTsm<typename F::Real, TbfTestKernel<typename F::Real, typename F::Space>, typename F::Space> algo(cfg, F::Space::IsPeriodic ? 1 : 2);
                algo.execute(tt);
                h1 = hashAll();
                if (h0 != h1) res.fail("c06:symbolic-changed-by-execute", "sequential target/source executor");
                res.ev("executions");
            }
            res.sig = "tsm:" + F::name() + ",H" + vh::str(in.geo.H) + ",Ns" + vh::str(in.parts.size()) + ",Nt" + vh::str(in2.parts.size()) + ",bs" + vh::str(in.blockSize) + "," + vh::str(vh::mix(seed, kk) % 100000);
            res.nontrivial = true;
        }
    };
    return s;
}

//================================================================================================ C07
template <class F> Segment c07Segment(long nQ, long nT) {
    Segment s; s.name = "c07-" + F::name();
    s.count = [=](bool th) { return th ? nT : nQ; };
    s.run = [=](long kk, uint64_t seed, bool, Result& res) {
        vh::Rng r(vh::mix(seed ^ 0xC07, uint64_t(kk)));
        auto in = randomInput<F>(r, vh::mix(seed, kk), 400, false);
        res.desc = inputDesc<F>(in);
        const typename F::Cfg cfg(in.geo.H, in.geo.width, in.geo.center);
        if (kk % 4 != 3) {
            typename F::Tree tree(cfg, in.parts, in.blockSize, in.ogp);
            checkStructure<F>(tree, in.geo.H, in.blockSize, in.ogp, res, "c07");
            res.sig = treeSig<F>(in, tree); res.nontrivial = tree.getNbParticleGroups() >= 1 && in.parts.size() >= 2;
            if (kk % 4 == 2) { tree.rebuild(); checkStructure<F>(tree, in.geo.H, in.blockSize, in.ogp, res, "c07-after-rebuild"); res.ev("rebuilt-trees"); }
        } else {
            auto in2 = secondSet<F>(r, in, 400);
            typename F::TreeTsm tt(cfg, in.parts, in2.parts, in.blockSize, in.ogp);
            SrcView<typename F::TreeTsm> sv{tt}; TgtView<typename F::TreeTsm> tv{tt};
            checkStructure<SrcFlavour<F>>(sv, in.geo.H, in.blockSize, in.ogp, res, "c07-tsm-source");
            checkStructure<F>(tv, in.geo.H, in.blockSize, in.ogp, res, "c07-tsm-target");
            res.sig = "tsm:" + F::name() + ",H" + vh::str(in.geo.H) + ",Ns" + vh::str(in.parts.size()) + ",Nt" + vh::str(in2.parts.size()) + ",bs" + vh::str(in.blockSize) + "," + vh::str(vh::mix(seed, kk) % 100000);
            res.nontrivial = true; res.ev("tsm-trees");
        }
        res.ev("trees");
    };
    return s;
}

// bounded-exhaustive structural slice: every occupancy pattern x every block size x both modes (C07)
template <class F> Segment c07EnumSegment(long H) {
    constexpr int D = F::D;
    long k = 1; for (int d = 0; d < D; ++d) k *= (1L << (H - 1));
    const uint64_t nb = (1ULL << k) - 1;
    Segment s; s.name = "c07-enum-" + F::name() + "-H" + vh::str(H);
    s.count = [=](bool th) { return long(th ? nb : std::min<uint64_t>(nb, 800)); };
    s.run = [=](long kk, uint64_t seed, bool th, Result& res) {
        const uint64_t mask = (!th && nb > 800) ? (vh::mix(seed, kk) % nb) + 1 : uint64_t(kk) + 1;
        vh::Rng r(vh::mix(seed ^ 0xE07, uint64_t(kk)));
        Input<F> in; in.geo = tbx::genGeo<typename F::Real, D>(r, H, false, 0); in.seed = seed;
        const typename F::Cfg cfg(H, in.geo.width, in.geo.center);
        const auto pos = tbx::patternPositions<typename F::Real, D>(r, cfg, tbx::leavesFromMask<D>(H, mask), 1, 2);
        in.parts.resize(pos.size()); for (size_t i = 0; i < pos.size(); ++i) { for (int d = 0; d < D; ++d) in.parts[i][d] = typename F::Data(pos[i][d]); for (int v = D; v < F::NV; ++v) in.parts[i][v] = typename F::Data(v); }
        in.dist = "pattern"; res.desc = "occupancy mask " + vh::str(mask) + " of " + vh::str(k) + " leaves, every block size 1.." + vh::str(k + 1) + " x both modes; " + F::name() + " H=" + vh::str(H);
        for (long bs = 1; bs <= k + 1; ++bs) for (int ogp = 0; ogp < 2; ++ogp) {
            in.blockSize = bs; in.ogp = ogp;
            typename F::Tree tree(cfg, in.parts, bs, ogp);
            checkStructure<F>(tree, H, bs, ogp, res, "c07");
            vh::Rng r2(vh::mix(seed, kk)); checkLookups<F>(tree, H, r2, true, res, "c16");
            res.ev("trees");
        }
        res.sig = "enum:" + F::name() + ",H" + vh::str(H) + ",mask" + vh::str(mask); res.nontrivial = (mask & (mask - 1)) != 0;
    };
    return s;
}

//================================================================================================ C16
template <class F> Segment c16Segment(long nQ, long nT) {
    Segment s; s.name = "c16-" + F::name();
    s.count = [=](bool th) { return th ? nT : nQ; };
    s.run = [=](long kk, uint64_t seed, bool, Result& res) {
        vh::Rng r(vh::mix(seed ^ 0xC16, uint64_t(kk)));
        auto in = randomInput<F>(r, vh::mix(seed, kk), kk % 5 == 0 ? 3000 : 200, false);
        res.desc = inputDesc<F>(in);
        const typename F::Cfg cfg(in.geo.H, in.geo.width, in.geo.center);
        if (kk % 4 != 3) {
            typename F::Tree tree(cfg, in.parts, in.blockSize, in.ogp);
            checkLookups<F>(tree, in.geo.H, r, true, res, "c16");
            res.sig = treeSig<F>(in, tree); res.nontrivial = in.parts.size() >= 2;
        } else {
            auto in2 = secondSet<F>(r, in, 200);
            typename F::TreeTsm tt(cfg, in.parts, in2.parts, in.blockSize, in.ogp);
            SrcView<typename F::TreeTsm> sv{tt}; TgtView<typename F::TreeTsm> tv{tt};
            checkLookups<SrcFlavour<F>>(sv, in.geo.H, r, true, res, "c16-tsm-source");
            checkLookups<F>(tv, in.geo.H, r, true, res, "c16-tsm-target");
            res.sig = "tsm:" + F::name() + ",H" + vh::str(in.geo.H) + ",Ns" + vh::str(in.parts.size()) + ",Nt" + vh::str(in2.parts.size()) + ",bs" + vh::str(in.blockSize) + "," + vh::str(vh::mix(seed, kk) % 100000);
            res.nontrivial = true;
        }
    };
    return s;
}

//================================================================================================ C13 / C17 helpers
template <class F> typename F::Rhs rhsPattern(long i, int v, int cycle) {
    // values that no narrower type can hold: full mantissa for floating results, beyond 2^53 for integer results
    // (row 0 of floating results stays a small integer: the counting kernel accumulates into it and the sum must stay exact in any order)
    if constexpr (std::is_floating_point<typename F::Rhs>::value) return typename F::Rhs(((i * 7 + v * 3 + cycle * 11) % 1000 + 1) * (v == 0 ? 1.0L : 1.000000123456789012L));
    else if constexpr (std::is_arithmetic<typename F::Rhs>::value) return typename F::Rhs((typename F::Rhs(1) << (sizeof(typename F::Rhs) * 8 - 4)) + (i * 7 + v * 3 + cycle * 11) % 1000 + 1);
    else return typename F::Rhs();
}

template <class F> typename F::Rhs signedPattern(typename F::Rhs v, bool negative) {
    if constexpr (std::is_arithmetic<typename F::Rhs>::value && std::is_signed<typename F::Rhs>::value) return negative ? typename F::Rhs(-v) : v;
    else return v;
}

template <class F> Segment c17Segment(long nQ, long nT) {
    Segment s; s.name = "c17-" + F::name();
    s.count = [=](bool th) { return th ? nT : nQ; };
    s.run = [=](long kk, uint64_t seed, bool, Result& res) {
        vh::Rng r(vh::mix(seed ^ 0xC17, uint64_t(kk)));
        auto in = randomInput<F>(r, vh::mix(seed, kk), kk % 3 == 0 ? 5 : 200, false); // small N < NbValues and large N > NbValues
        res.desc = inputDesc<F>(in);
        const typename F::Cfg cfg(in.geo.H, in.geo.width, in.geo.center);
        if (kk % 4 != 3) {
            typename F::Tree tree(cfg, in.parts, in.blockSize, in.ogp);
            checkExports<F>(tree, in.parts, res, "c17");
            if constexpr (F::NRHS > 0 && std::is_arithmetic<typename F::Rhs>::value) {
                TbfAlgorithm<typename F::Real, TbfTestKernel<typename F::Real, typename F::Space>, typename F::Space> algo(cfg, F::Space::IsPeriodic ? 1 : 2);
                algo.execute(tree);
                tree.applyToAllLeaves([&](auto& hdr, const long* idx, auto&&, auto&& rhs) { for (long p = 0; p < hdr.nbParticles; ++p) for (int v = 1; v < F::NRHS; ++v) rhs[v][p] = rhsPattern<F>(idx[p], v, 0); });
                checkExports<F>(tree, in.parts, res, "c17-after-execute");
            }
            if (kk % 2 == 0) { tree.rebuild(); checkExports<F>(tree, in.parts, res, "c17-after-rebuild"); }
            res.sig = treeSig<F>(in, tree); res.nontrivial = in.parts.size() >= 2;
        } else {
            auto in2 = secondSet<F>(r, in, 200);
            typename F::TreeTsm tt(cfg, in.parts, in2.parts, in.blockSize, in.ogp);
            SrcView<typename F::TreeTsm> sv{tt}; TgtView<typename F::TreeTsm> tv{tt};
            checkExports<SrcFlavour<F>>(sv, in.parts, res, "c17-tsm-source");
            checkExports<F>(tv, in2.parts, res, "c17-tsm-target");
            res.sig = "tsm:" + F::name() + ",H" + vh::str(in.geo.H) + ",Ns" + vh::str(in.parts.size()) + ",Nt" + vh::str(in2.parts.size()) + "," + vh::str(vh::mix(seed, kk) % 100000);
            res.nontrivial = true;
        }
    };
    return s;
}

// C13: move / rebuild / execute cycles compared with a tree freshly built from the edited array
template <class F> Segment c13Segment(long nQ, long nT) {
    constexpr int D = F::D;
    using Real = typename F::Real; using Data = typename F::Data;
    Segment s; s.name = "c13-" + F::name();
    s.count = [=](bool th) { return th ? nT : nQ; };
    s.run = [=](long kk, uint64_t seed, bool, Result& res) {
        vh::Rng r(vh::mix(seed ^ 0xC13, uint64_t(kk)));
        auto in = randomInput<F>(r, vh::mix(seed, kk), 250, false);
        const long N = long(in.parts.size());
        const int cycles = int(r.range(1, 4));
        res.desc = inputDesc<F>(in) + " cycles=" + vh::str(cycles);
        const typename F::Cfg cfg(in.geo.H, in.geo.width, in.geo.center);
        typename F::Tree tree(cfg, in.parts, in.blockSize, in.ogp);
        auto current = in.parts;
        std::vector<std::array<typename F::Rhs, (F::NRHS > 0 ? F::NRHS : 1)>> rhsNow(N);
        long moved = 0, leafChanges = 0;
        for (int cyc = 0; cyc < cycles; ++cyc) {
            // results and expansions get recognisable content
            tree.applyToAllLeaves([&](auto& hdr, const long* idx, auto&&, auto&& rhs) {
                // every third cycle all results are negative (an attractive potential): whether anything is restored must not depend on signs or magnitudes
                if constexpr (F::NRHS > 0) for (long p = 0; p < hdr.nbParticles; ++p) for (int v = 0; v < F::NRHS; ++v) { rhs[v][p] = signedPattern<F>(rhsPattern<F>(idx[p], v, cyc), (kk + cyc) % 3 == 0); rhsNow[idx[p]][v] = rhs[v][p]; }
            });
            tree.applyToAllCells([&](long, auto&, auto& m, auto& l) { if (m) m->get()[0] = 7; if (l) l->get()[0] = 9; });
            // edit positions in place: subset moves (some to a single leaf -> empties leaves, some spread -> creates leaves, some to faces)
            const int style = int(r.below(4));
            const double frac = style == 0 ? 1.0 : 0.1 + 0.8 * r.unit();
            tbx::DistState st; for (auto& x : st.c) x = r.unit(); for (auto& x : st.leaf) x = long(r.below(1u << 20));
            const int dist = style == 1 ? int(tbx::D_ONELEAF) : style == 2 ? int(tbx::D_BOXFACES) : style == 3 ? int(tbx::D_FACES) : int(tbx::D_UNIFORM);
            std::vector<std::array<Real, D>> prev;
            const auto before = tbx::leafOfParticle<D>(tree, N);
            // histories of queries: look cells and leaves up before the move and again after the rebuild on the same tree object
            { vh::Rng rq(vh::mix(seed ^ 0x16B, uint64_t(kk) * 16 + uint64_t(cyc))); checkLookups<F>(tree, in.geo.H, rq, true, res, "c16-before-rebuild"); }
            tree.applyToAllLeaves([&](auto& hdr, const long* idx, auto&& data, auto&&) {
                for (long p = 0; p < hdr.nbParticles; ++p) {
                    if (!r.coin(frac)) continue;
                    for (int tries = 0; tries < 50; ++tries) {
                        auto pr = tbx::candidate<Real, D>(r, cfg, tries < 40 ? dist : int(tbx::D_UNIFORM), prev, st);
                        std::array<Data, D> pd = toData<Data>(r, pr);
                        if (!tbx::validPos<Real, D>(cfg, pd)) continue;
                        for (int d = 0; d < D; ++d) { data[d][p] = pd[d]; current[idx[p]][d] = pd[d]; }
                        ++moved; break;
                    }
                }
            });
            tree.rebuild();
            typename F::Tree fresh(cfg, current, tree.getNbElementsPerGroup(), in.ogp);
            Input<F> cur = in; cur.parts = current; cur.exactLeaf.clear();
            const std::string tag = "c13";
            checkConstruction<F>(tree, cur, res, tag, false);   // every particle once, bit-identical data, inside its leaf
            checkStructure<F>(tree, in.geo.H, tree.getNbElementsPerGroup(), in.ogp, res, tag);
            bool ok1 = true, ok2 = true;
            const auto la = tbx::leafOfParticle<D>(tree, N, &ok1), lb = tbx::leafOfParticle<D>(fresh, N, &ok2);
            if (ok1 && ok2) for (long i = 0; i < N; ++i) { if (la[i] != lb[i]) { res.fail(tag + ":leaf-differs-from-fresh-tree", "particle " + vh::str(i) + " rebuilt " + vh::astr(la[i]) + " fresh " + vh::astr(lb[i])); break; } if (la[i] != before[i]) ++leafChanges; }
            // group layout identical to the fresh tree
            for (long L = 0; L < in.geo.H; ++L) {
                const auto& ga = tree.getCellGroupsAtLevel(L); const auto& gb = fresh.getCellGroupsAtLevel(L);
                bool same = ga.size() == gb.size();
                for (size_t g = 0; same && g < ga.size(); ++g) { same = ga[g].getNbCells() == gb[g].getNbCells(); for (long i = 0; same && i < ga[g].getNbCells(); ++i) same = ga[g].getCellSpacialIndex(i) == gb[g].getCellSpacialIndex(i); }
                if (!same) { res.fail(tag + ":groups-differ-from-fresh-tree", "level " + vh::str(L)); break; }
            }
            // results preserved, expansions reset
            tree.applyToAllLeaves([&](auto& hdr, const long* idx, auto&&, auto&& rhs) {
                if constexpr (F::NRHS > 0) for (long p = 0; p < hdr.nbParticles; ++p) for (int v = 0; v < F::NRHS; ++v)
                    if (std::memcmp(&rhs[v][p], &rhsNow[idx[p]][v], sizeof(typename F::Rhs)) != 0) { res.fail(tag + ":rhs-not-preserved", "particle " + vh::str(idx[p]) + " value " + vh::str(v)); return; }
            });
            tree.applyToAllCells([&](long L, auto& hdr, auto& m, auto& l) {
                if ((m && !tbx::allZero(m->get())) || (l && !tbx::allZero(l->get()))) res.fail(tag + ":expansions-not-reset", "level " + vh::str(L) + " cell " + vh::astr(hdr.boxCoord));
            });
            checkExports<F>(tree, current, res, "c17-after-rebuild");
            { vh::Rng rq(vh::mix(seed ^ 0x16A, uint64_t(kk) * 16 + uint64_t(cyc))); checkLookups<F>(tree, in.geo.H, rq, true, res, "c16-after-rebuild"); }
            // one more execution adds exactly one more full interaction (counting kernel: N-1 per particle)
            if constexpr (F::NRHS > 0 && std::is_arithmetic<typename F::Rhs>::value) {
                TbfAlgorithm<Real, TbfTestKernel<Real, typename F::Space>, typename F::Space> algo(cfg, F::Space::IsPeriodic ? 1 : 2);
                algo.execute(tree);
                const long per = F::Space::IsPeriodic ? (N * vm::box<D>(1).size() - 1) : (N - 1);
                tree.applyToAllLeaves([&](auto& hdr, const long* idx, auto&&, auto&& rhs) {
                    for (long p = 0; p < hdr.nbParticles; ++p) if (rhs[0][p] != typename F::Rhs(rhsNow[idx[p]][0] + typename F::Rhs(per))) { res.fail(tag + ":execute-after-rebuild", "particle " + vh::str(idx[p]) + " got " + vh::str(rhs[0][p]) + " expected " + vh::str(rhsNow[idx[p]][0] + typename F::Rhs(per))); return; }
                });
                res.ev("executions-after-rebuild");
            }
            res.ev("rebuild-cycles");
        }
        res.ev("particles-moved", moved); res.ev("leaf-changes", leafChanges);
        res.sig = treeSig<F>(in, tree) + ",cyc" + vh::str(cycles); res.nontrivial = moved > 0 && N >= 2;
    };
    return s;
}

// C13 on target/source trees: both halves are edited in place, rebuilt together and compared with trees freshly built from the edited arrays
template <class F> Segment c13TsmSegment(long nQ, long nT) {
    constexpr int D = F::D;
    using Real = typename F::Real; using Data = typename F::Data;
    using TT = typename F::TreeTsm;
    Segment s; s.name = "c13-tsm-" + F::name();
    s.count = [=](bool th) { return th ? nT : nQ; };
    s.run = [=](long kk, uint64_t seed, bool, Result& res) {
        vh::Rng r(vh::mix(seed ^ 0xC13D, uint64_t(kk)));
        auto in = randomInput<F>(r, vh::mix(seed, kk), 150, false);
        auto in2 = secondSet<F>(r, in, 150);
        const long Ns = long(in.parts.size()), Nt = long(in2.parts.size());
        const int cycles = int(r.range(1, 3));
        res.desc = inputDesc<F>(in) + " | tsm targets N=" + vh::str(Nt) + " dist=" + in2.dist + " cycles=" + vh::str(cycles);
        const typename F::Cfg cfg(in.geo.H, in.geo.width, in.geo.center);
        TT tt(cfg, in.parts, in2.parts, in.blockSize, in.ogp);
        auto curS = in.parts; auto curT = in2.parts;
        std::vector<std::array<typename F::Rhs, (F::NRHS > 0 ? F::NRHS : 1)>> rhsNow(Nt);
        long moved = 0;
        for (int cyc = 0; cyc < cycles; ++cyc) {
            tt.applyToAllLeavesTarget([&](auto& hdr, const long* idx, auto&&, auto&& rhs) {
                // every third cycle all results are negative (an attractive potential): whether anything is restored must not depend on signs or magnitudes
                if constexpr (F::NRHS > 0) for (long p = 0; p < hdr.nbParticles; ++p) for (int v = 0; v < F::NRHS; ++v) { rhs[v][p] = signedPattern<F>(rhsPattern<F>(idx[p], v, cyc), (kk + cyc) % 3 == 0); rhsNow[idx[p]][v] = rhs[v][p]; }
            });
            tt.applyToAllCellsSource([&](long, auto&, auto& m, auto&) { if (m) m->get()[0] = 7; });
            tt.applyToAllCellsTarget([&](long, auto&, auto&, auto& l) { if (l) l->get()[0] = 9; });
            auto mover = [&](auto& current) {
                const int style = int(r.below(4));
                const double frac = style == 0 ? 1.0 : 0.1 + 0.8 * r.unit();
                tbx::DistState st; for (auto& x : st.c) x = r.unit(); for (auto& x : st.leaf) x = long(r.below(1u << 20));
                const int dist = style == 1 ? int(tbx::D_ONELEAF) : style == 2 ? int(tbx::D_BOXFACES) : style == 3 ? int(tbx::D_FACES) : int(tbx::D_UNIFORM);
                auto prev = std::make_shared<std::vector<std::array<Real, D>>>();
                return [&, frac, dist, st, prev](auto& hdr, const long* idx, auto&& data, auto&&) mutable {
                    for (long p = 0; p < hdr.nbParticles; ++p) {
                        if (!r.coin(frac)) continue;
                        for (int tries = 0; tries < 50; ++tries) {
                            auto pr = tbx::candidate<Real, D>(r, cfg, tries < 40 ? dist : int(tbx::D_UNIFORM), *prev, st);
                            std::array<Data, D> pd = toData<Data>(r, pr);
                            if (!tbx::validPos<Real, D>(cfg, pd)) continue;
                            for (int d = 0; d < D; ++d) { data[d][p] = pd[d]; current[idx[p]][d] = pd[d]; }
                            ++moved; break;
                        }
                    }
                };
            };
            { vh::Rng rq(vh::mix(seed ^ 0x16D, uint64_t(kk) * 16 + uint64_t(cyc))); SrcView<TT> qs{tt}; TgtView<TT> qt{tt};
              checkLookups<SrcFlavour<F>>(qs, in.geo.H, rq, true, res, "c16-tsm-source-before-rebuild"); checkLookups<F>(qt, in.geo.H, rq, true, res, "c16-tsm-target-before-rebuild"); }
            if (r.coin(0.8)) tt.applyToAllLeavesSource(mover(curS));
            if (r.coin(0.8)) tt.applyToAllLeavesTarget(mover(curT));
            tt.rebuild();
            TT fresh(cfg, curS, curT, tt.getNbElementsPerGroupSource(), in.ogp);
            SrcView<TT> sv{tt}, fsv{fresh}; TgtView<TT> tv{tt}, ftv{fresh};
            Input<SrcFlavour<F>> cS; cS.geo = in.geo; cS.parts = curS;
            Input<F> cT = in2; cT.parts = curT; cT.exactLeaf.clear();
            checkConstruction<SrcFlavour<F>>(sv, cS, res, "c13-tsm-source", false);
            checkConstruction<F>(tv, cT, res, "c13-tsm-target", false);
            checkStructure<SrcFlavour<F>>(sv, in.geo.H, tt.getNbElementsPerGroupSource(), in.ogp, res, "c13-tsm-source");
            checkStructure<F>(tv, in.geo.H, tt.getNbElementsPerGroupTarget(), in.ogp, res, "c13-tsm-target");
            auto sameAsFresh = [&](auto& a, auto& b, long N, const std::string& tag) {
                bool ok1 = true, ok2 = true;
                const auto la = tbx::leafOfParticle<D>(a, N, &ok1), lb = tbx::leafOfParticle<D>(b, N, &ok2);
                if (ok1 && ok2) for (long i = 0; i < N; ++i) if (la[i] != lb[i]) { res.fail(tag + ":leaf-differs-from-fresh-tree", "particle " + vh::str(i) + " rebuilt " + vh::astr(la[i]) + " fresh " + vh::astr(lb[i])); break; }
                for (long L = 0; L < in.geo.H; ++L) {
                    const auto& ga = a.getCellGroupsAtLevel(L); const auto& gb = b.getCellGroupsAtLevel(L);
                    bool same = ga.size() == gb.size();
                    for (size_t g = 0; same && g < ga.size(); ++g) { same = ga[g].getNbCells() == gb[g].getNbCells(); for (long i = 0; same && i < ga[g].getNbCells(); ++i) same = ga[g].getCellSpacialIndex(i) == gb[g].getCellSpacialIndex(i); }
                    if (!same) { res.fail(tag + ":groups-differ-from-fresh-tree", "level " + vh::str(L)); break; }
                }
            };
            sameAsFresh(sv, fsv, Ns, "c13-tsm-source"); sameAsFresh(tv, ftv, Nt, "c13-tsm-target");
            tt.applyToAllLeavesTarget([&](auto& hdr, const long* idx, auto&&, auto&& rhs) {
                if constexpr (F::NRHS > 0) for (long p = 0; p < hdr.nbParticles; ++p) for (int v = 0; v < F::NRHS; ++v)
                    if (std::memcmp(&rhs[v][p], &rhsNow[idx[p]][v], sizeof(typename F::Rhs)) != 0) { res.fail("c13-tsm-target:rhs-not-preserved", "particle " + vh::str(idx[p]) + " value " + vh::str(v)); return; }
            });
            tt.applyToAllCellsSource([&](long L, auto& hdr, auto& m, auto&) { if (m && !tbx::allZero(m->get())) res.fail("c13-tsm-source:expansions-not-reset", "level " + vh::str(L) + " cell " + vh::astr(hdr.boxCoord)); });
            tt.applyToAllCellsTarget([&](long L, auto& hdr, auto&, auto& l) { if (l && !tbx::allZero(l->get())) res.fail("c13-tsm-target:expansions-not-reset", "level " + vh::str(L) + " cell " + vh::astr(hdr.boxCoord)); });
            { vh::Rng rq(vh::mix(seed ^ 0x16E, uint64_t(kk) * 16 + uint64_t(cyc)));
              checkLookups<SrcFlavour<F>>(sv, in.geo.H, rq, true, res, "c16-tsm-source-after-rebuild"); checkLookups<F>(tv, in.geo.H, rq, true, res, "c16-tsm-target-after-rebuild"); }
            checkExports<SrcFlavour<F>>(sv, curS, res, "c17-tsm-source-after-rebuild");
            checkExports<F>(tv, curT, res, "c17-tsm-target-after-rebuild");
            if constexpr (F::NRHS > 0 && std::is_arithmetic<typename F::Rhs>::value) {
                TbfAlgorithmTsm<Real, TbfTestKernel<Real, typename F::Space>, typename F::Space> algo(cfg, F::Space::IsPeriodic ? 1 : 2);
                algo.execute(tt);
                const long per = F::Space::IsPeriodic ? (Ns * long(vm::box<D>(1).size())) : Ns;
                tt.applyToAllLeavesTarget([&](auto& hdr, const long* idx, auto&&, auto&& rhs) {
                    for (long p = 0; p < hdr.nbParticles; ++p) if (rhs[0][p] != typename F::Rhs(rhsNow[idx[p]][0] + typename F::Rhs(per))) { res.fail("c13-tsm:execute-after-rebuild", "target " + vh::str(idx[p]) + " got " + vh::str(rhs[0][p]) + " expected " + vh::str(rhsNow[idx[p]][0] + typename F::Rhs(per))); return; }
                });
                res.ev("executions-after-rebuild");
            }
            res.ev("rebuild-cycles"); res.ev("tsm-rebuild-cycles");
        }
        res.ev("particles-moved", moved);
        res.sig = "tsm:" + F::name() + ",H" + vh::str(in.geo.H) + ",Ns" + vh::str(Ns) + ",Nt" + vh::str(Nt) + ",bs" + vh::str(in.blockSize) + ",cyc" + vh::str(cycles) + "," + vh::str(vh::mix(seed, kk) % 100000);
        res.nontrivial = moved > 0;
    };
    return s;
}

// Very large inputs (N just above 10^6, not a multiple of small thread counts): construction paths that switch on the input size
// (the engine is compiled with -fopenmp and linked with the real libgomp, so an `#ifdef _OPENMP` path in the construction code runs
// as it would in a user's OpenMP build). Uniform points, one flavour per dimension; checked with the full C06 oracle.
template <class F> Segment c06HugeSegment(long nQ, long nT) {
    constexpr int D = F::D;
    using Real = typename F::Real; using Data = typename F::Data;
    Segment s; s.name = "c06-huge-" + F::name();
    s.count = [=](bool th) { return th ? nT : nQ; };
    s.run = [=](long kk, uint64_t seed, bool, Result& res) {
        vh::Rng r(vh::mix(seed ^ 0x4006E, uint64_t(kk)));
        Input<F> in; in.seed = vh::mix(seed, kk);
        const long H = r.range(D == 1 ? 8 : D == 2 ? 5 : 3, D == 1 ? 12 : D == 2 ? 7 : D == 3 ? 5 : 4);
        in.geo = tbx::genGeo<Real, D>(r, H, false, -1);
        const typename F::Cfg cfg(H, in.geo.width, in.geo.center);
        const long Ns[] = {1000003, 1000000, 1048583, 1200007};
        const long N = Ns[kk % 4] + (kk >= 4 ? long(r.below(1000)) : 0);
        const int threads[] = {3, 7, 12, 5, 16, 2};
        const int T = threads[(kk / 2) % 6];
        in.dist = "uniform"; in.blockSize = r.coin() ? -1 : (r.coin() ? 500 : 100000); in.ogp = r.coin(0.3);
        in.parts.resize(size_t(N));
        for (long i = 0; i < N; ++i) {
            for (int d = 0; d < D; ++d) {
                // strictly inside the box in Data precision (the library's precondition), any position otherwise
                Data v; do { v = Data(Real(cfg.getBoxCorner()[d]) + Real(r.unit()) * cfg.getBoxWidths()[d]); } while (!(v >= Data(cfg.getBoxCorner()[d])) || !(Real(v - Data(cfg.getBoxCorner()[d])) < cfg.getBoxWidths()[d]));
                in.parts[size_t(i)][d] = v;
            }
            for (int v = D; v < F::NV; ++v) in.parts[size_t(i)][v] = extraValue<Data>(in.seed + uint64_t(v), uint64_t(i));
        }
        res.desc = inputDesc<F>(in) + " | huge input under " + vh::str(T) + " OpenMP threads";
        vh::announce(res.desc);
        tbx::setOmpThreads(T);
        {
            typename F::Tree tree(cfg, in.parts, in.blockSize, in.ogp);
            checkConstruction<F>(tree, in, res, "c06-huge");
            checkStructure<F>(tree, H, tree.getNbElementsPerGroup(), in.ogp, res, "c06-huge");
            res.sig = "huge:" + F::name() + ",H" + vh::str(H) + ",N" + vh::str(N) + ",T" + vh::str(T) + ",bs" + vh::str(in.blockSize);
        }
        tbx::setOmpThreads(1);
        res.ev("huge-trees"); res.nontrivial = true;
    };
    return s;
}

// Empty particle sets: the library accepts them (constructor and rebuild() return early). N = 0 is below the "N from 1 up" of the
// input spaces, so nothing about results is claimed; the segment exists for C15 (no report / assertion when an empty tree or an
// empty half of a target/source tree is built, executed, rebuilt, queried and destroyed) and checks only that nothing exists in it.
template <class F> Segment c13EmptySegment(long nQ, long nT) {
    constexpr int D = F::D;
    using Real = typename F::Real;
    using TT = typename F::TreeTsm;
    Segment s; s.name = "c13-empty-" + F::name();
    s.count = [=](bool th) { return th ? nT : nQ; };
    s.run = [=](long kk, uint64_t seed, bool, Result& res) {
        vh::Rng r(vh::mix(seed ^ 0xE13D, uint64_t(kk)));
        auto in = randomInput<F>(r, vh::mix(seed, kk), 60, false);
        const typename F::Cfg cfg(in.geo.H, in.geo.width, in.geo.center);
        const decltype(in.parts) none;
        const int shape = int(kk % 4);   // 0: empty single tree; 1: no sources; 2: no targets; 3: both halves empty
        res.desc = inputDesc<F>(in) + " | empty-input shape " + vh::str(shape);
        auto nothingIn = [&](auto& t, const std::string& tag) {
            if (t.getNbParticleGroups() != 0) res.fail(tag + ":particle-groups-in-empty-tree", vh::str(t.getNbParticleGroups()));
            for (long L = 0; L < in.geo.H; ++L) if (t.getNbCellGroupsAtLevel(L) != 0) res.fail(tag + ":cell-groups-in-empty-tree", "level " + vh::str(L));
            for (long L = 0; L < in.geo.H; ++L) for (long q : {0L, 1L, 7L}) if (t.findGroupWithCell(L, q)) res.fail(tag + ":cell-found-in-empty-tree", "level " + vh::str(L));
            for (long q : {0L, 1L, 7L}) if (t.findGroupWithLeaf(q)) res.fail(tag + ":leaf-found-in-empty-tree", "");
            long seen = 0; t.applyToAllLeaves([&](auto&, const long*, auto&&, auto&&) { ++seen; }); t.applyToAllCells([&](long, auto&, auto&, auto&) { ++seen; });
            if (seen) res.fail(tag + ":callbacks-on-empty-tree", vh::str(seen));
            res.ev("empty-trees-queried");
        };
        if (shape == 0) {
            typename F::Tree tree(cfg, none, in.blockSize, in.ogp);
            for (int round = 0; round < 3; ++round) {
                nothingIn(tree, "c13-empty");
                { auto d = tree.getAllParticlesData(); auto q = tree.getAllParticlesRhs(); (void)d; (void)q; }
                if constexpr (F::NRHS > 0 && std::is_arithmetic<typename F::Rhs>::value) { TbfAlgorithm<Real, TbfTestKernel<Real, typename F::Space>, typename F::Space> algo(cfg, F::Space::IsPeriodic ? 1 : 2); algo.execute(tree); res.ev("executions-on-empty-trees"); }
                tree.rebuild(); res.ev("rebuild-cycles"); res.ev("empty-rebuilds");
            }
        } else {
            const auto& srcP = (shape == 1 || shape == 3) ? none : in.parts;
            const auto& tgtP = (shape == 2 || shape == 3) ? none : in.parts;
            TT tt(cfg, srcP, tgtP, in.blockSize, in.ogp);
            for (int round = 0; round < 3; ++round) {
                SrcView<TT> sv{tt}; TgtView<TT> tv{tt};
                if (srcP.empty()) nothingIn(sv, "c13-empty-source"); if (tgtP.empty()) nothingIn(tv, "c13-empty-target");
                if constexpr (F::NRHS > 0 && std::is_arithmetic<typename F::Rhs>::value) {
                    TbfAlgorithmTsm<Real, TbfTestKernel<Real, typename F::Space>, typename F::Space> algo(cfg, F::Space::IsPeriodic ? 1 : 2); algo.execute(tt); res.ev("executions-on-empty-trees");
                    // without sources nothing may reach a target
                    if (srcP.empty()) tt.applyToAllLeavesTarget([&](auto& hdr, const long* idx, auto&&, auto&& rhs) { for (long p = 0; p < hdr.nbParticles; ++p) if (rhs[0][p] != typename F::Rhs(0)) { res.fail("c13-empty:target-result-without-sources", "target " + vh::str(idx[p])); return; } });
                }
                tt.rebuild(); res.ev("rebuild-cycles"); res.ev("empty-rebuilds");
            }
        }
        res.sig = "empty:" + F::name() + ",shape" + vh::str(shape) + ",H" + vh::str(in.geo.H) + ",bs" + vh::str(in.blockSize); res.nontrivial = true;
    };
    return s;
}

} // namespace tr
#endif
