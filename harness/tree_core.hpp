// Engine h_tree: construction, structure, lookup, export, rebuild (C06, C07, C13, C16, C17).
#ifndef VH_TREE_CORE_HPP
#define VH_TREE_CORE_HPP

#include "tbx.hpp"
#include "algorithms/sequential/tbfalgorithm.hpp"
#include "algorithms/sequential/tbfalgorithmtsm.hpp"
#include "kernels/testkernel/tbftestkernel.hpp"
#include <optional>

namespace tr {

using vm::Coord;
using vh::Result;

struct Segment {
    std::string name;
    std::function<long(bool)> count;
    std::function<void(long, uint64_t, bool, Result&)> run;
};

template <class Real_, int D_, int NV_, class Data_, class Rhs_, int NRHS_, class Space_ = tbx::Morton<Real_, D_, false>>
struct Flavour {
    using Real = Real_; using Data = Data_; using Rhs = Rhs_; using Space = Space_;
    static constexpr int D = D_, NV = NV_, NRHS = NRHS_;
    static constexpr bool IsMorton = std::is_same<Space_, tbx::Morton<Real_, D_, false>>::value || std::is_same<Space_, tbx::Morton<Real_, D_, true>>::value;
    using Cfg = tbx::Config<Real, D>;
    using Cell = std::array<long, 1>;
    using Tree = TbfTree<Real, Data, NV, Rhs, NRHS, Cell, Cell, Space>;
    using TreeTsm = TbfTreeTsm<Real, Data, NV, Rhs, NRHS, Cell, Cell, Space>;
    using Parts = std::vector<std::array<Data, NV>>;
    static std::string name() {
        return std::string("D") + vh::str(D) + (sizeof(Real) == 4 ? ",real=float" : ",real=double") + (sizeof(Data) == 4 ? ",data=float" : ",data=double") + ",NV" + vh::str(NV) + ",NRHS" + vh::str(NRHS) + (Space::IsPeriodic ? ",periodic" : "");
    }
};

template <class F> struct Input {
    tbx::Geo<typename F::Real, F::D> geo;
    typename F::Parts parts;
    std::vector<Coord<F::D>> exactLeaf; // non-empty when the expected leaf of every particle is known exactly (dyadic inputs)
    long blockSize = 1; bool ogp = false; std::string dist; uint64_t seed = 0;
};

template <class F> std::string inputDesc(const Input<F>& in) {
    std::ostringstream os;
    os << F::name() << " height=" << in.geo.H << " box=" << in.geo.name << " width=" << vh::astr(in.geo.width) << " centre=" << vh::astr(in.geo.center) << " N=" << in.parts.size() << " dist=" << in.dist << " blockSize=" << in.blockSize << " oneGroupPerParent=" << in.ogp;
    return os.str();
}

inline long maxH(int D) { return D == 1 ? 9 : D == 2 ? 6 : D == 3 ? 5 : 4; }

// when the data type is wider than the coordinate type, give positions digits the narrower type cannot hold
template <class Data, class Real, size_t N> std::array<Data, N> toData(vh::Rng& r, const std::array<Real, N>& p) {
    std::array<Data, N> out;
    for (size_t d = 0; d < N; ++d) {
        out[d] = Data(p[d]);
        if (sizeof(Data) > sizeof(Real) && r.coin(0.8)) out[d] += Data((r.unit() - 0.5) * 1e-9) * (std::fabs(out[d]) + Data(1e-3));
    }
    return out;
}
template <class Data> Data extraValue(uint64_t salt, uint64_t i) {
    return Data((double(int64_t(vh::mix(salt, i) >> 11)) / 9007199254740992.0 - 0.5) * 2000.0);
}

template <class F> Input<F> randomInput(vh::Rng& r, uint64_t seed, long maxN, bool allowExact = true) {
    constexpr int D = F::D;
    using Real = typename F::Real; using Data = typename F::Data;
    Input<F> in; in.seed = seed;
    const bool deep = r.coin(0.08);   // a deep sparse tree now and then (see tbx::deepHeightFor)
    const long H = deep ? r.range(maxH(D) + 1, tbx::deepHeightFor<Real>(D)) : r.range(1, maxH(D));
    if (deep) maxN = std::min<long>(maxN, 60);
    const bool exact = allowExact && r.coin(0.25);
    in.geo = tbx::genGeo<Real, D>(r, H, false, exact ? (r.coin() ? 0 : 3) : -1);
    if (exact) { // undo possible anisotropy scaling: keep dyadic
        in.geo = tbx::genGeo<Real, D>(r, H, true, r.coin() ? 0 : 3);
    }
    const typename F::Cfg cfg(H, in.geo.width, in.geo.center);
    long N = 1 + long(r.below(uint64_t(maxN)));
    if (r.coin(0.1)) N = 1 + long(r.below(3));
    in.parts.resize(N);
    const long nl = 1L << (H - 1);
    if (exact) {
        in.dist = "exact-lattice";
        in.exactLeaf.resize(N);
        for (long i = 0; i < N; ++i) {
            for (int d = 0; d < D; ++d) {
                const long u = r.coin(0.3) ? r.range(0, nl) * 4 : r.range(0, nl * 4); // faces (multiples of 4) or interior lattice points
                const Real p = cfg.getBoxCorner()[d] + Real(double(u) / double(nl * 4)) * cfg.getBoxWidths()[d];
                in.parts[i][d] = Data(p);
                in.exactLeaf[i][d] = std::min(u / 4, nl - 1);
            }
        }
        // exactness requires the Data type to hold p exactly and the arithmetic to be exact: verified, else drop the claim
        // (the expected leaf is derived from the value actually stored: in a deep tree of a narrow coordinate type the intended lattice point may have
        // been rounded to another lattice point when it was stored)
        for (long i = 0; i < N && !in.exactLeaf.empty(); ++i) for (int d = 0; d < D; ++d) {
            const long double back = ((long double)in.parts[i][d] - (long double)cfg.getBoxCorner()[d]) / (long double)cfg.getBoxWidths()[d] * (long double)(nl * 4);
            if (back != std::floor(back) || back < 0 || back > (long double)(nl * 4)) { in.exactLeaf.clear(); in.dist = "lattice(not exactly representable)"; break; }
            in.exactLeaf[i][d] = std::min<long>(long(back) / 4, nl - 1);
        }
    } else {
        const int dist = int(r.below(tbx::D_NB));
        in.dist = tbx::distName(dist);
        // generate in Data precision and filter with the library's precondition evaluated on the Data values
        std::vector<std::array<Data, D>> pos;
        long guard = 0;
        tbx::DistState st; for (auto& x : st.c) x = r.unit(); for (auto& x : st.leaf) x = long(r.below(1u << 20));
        std::vector<std::array<Real, D>> prevR;
        while (long(pos.size()) < N) {
            auto pr = tbx::candidate<Real, D>(r, cfg, (++guard > 200 * N + 1000) ? int(tbx::D_UNIFORM) : dist, prevR, st);
            std::array<Data, D> pd = toData<Data>(r, pr);
            if (tbx::validPos<Real, D>(cfg, pd)) { pos.push_back(pd); prevR.push_back(pr); }
        }
        for (long i = 0; i < N; ++i) for (int d = 0; d < D; ++d) in.parts[i][d] = pos[i][d];
    }
    for (long i = 0; i < N; ++i) for (int v = D; v < F::NV; ++v) in.parts[i][v] = extraValue<Data>(seed + uint64_t(v), uint64_t(i));
    long nbLeavesMax = 1; for (int d = 0; d < D; ++d) nbLeavesMax *= nl;
    const auto bss = tbx::blockSizesFor(std::min(nbLeavesMax, N), false);
    in.blockSize = bss[r.below(bss.size())];
    if (r.coin(0.08)) in.blockSize = -1;
    if (tbx::forcedBlockSize()) in.blockSize = tbx::forcedBlockSize();
    in.ogp = r.coin(0.5);
    return in;
}

//================================================================================================ C06 construction checks
template <class F, class Tree> void checkConstruction(const Tree& tree, const Input<F>& in, Result& res, const std::string& tag, bool checkZero = true) {
    constexpr int D = F::D;
    using Real = typename F::Real; using Data = typename F::Data;
    const long N = long(in.parts.size());
    const typename F::Cfg cfg(in.geo.H, in.geo.width, in.geo.center);
    std::vector<int> seen(N, 0);
    const long nl = 1L << (in.geo.H - 1);
    long checked = 0;
    tree.applyToAllLeaves([&](auto& hdr, const long* idx, auto&& data, auto&& rhs) {
        Coord<D> c; for (int d = 0; d < D; ++d) c[d] = hdr.boxCoord[d];
        for (int d = 0; d < D; ++d) if (c[d] < 0 || c[d] >= nl) res.fail(tag + ":leaf-coord-range", "leaf " + vh::astr(c));
        if constexpr (!F::IsMorton) { std::array<long, D> ca; for (int d = 0; d < D; ++d) ca[d] = c[d]; if (tree.getSpacialSystem().getIndexFromBoxPos(ca) != hdr.spaceIndex) res.fail(tag + ":leaf-index-vs-coord", "spaceIndex and boxCoord are not each other's image under the ordering"); }
        else { if (hdr.spaceIndex != vm::mortonIndex<D>(c, in.geo.H - 1)) res.fail(tag + ":leaf-index-vs-coord", "spaceIndex " + vh::str(hdr.spaceIndex) + " but Morton(coord " + vh::astr(c) + ")=" + vh::str(vm::mortonIndex<D>(c, in.geo.H - 1))); }
        if (hdr.nbParticles < 1) res.fail(tag + ":empty-leaf", "leaf " + vh::astr(c));
        for (long p = 0; p < hdr.nbParticles; ++p) {
            const long i = idx[p];
            if (i < 0 || i >= N) { res.fail(tag + ":index-range", "index " + vh::str(i)); continue; }
            seen[i]++;
            for (int v = 0; v < F::NV; ++v) if (std::memcmp(&data[v][p], &in.parts[i][v], sizeof(Data)) != 0) { res.fail(tag + ":data-not-bit-identical", "particle " + vh::str(i) + " value " + vh::str(v)); break; }
            // containment
            for (int d = 0; d < D; ++d) {
                const long double corner = cfg.getBoxCorner()[d], w = cfg.getBoxWidths()[d];
                const long double lo = corner + c[d] * (w / nl), hi = corner + (c[d] + 1) * (w / nl);
                const long double tol = 4 * (long double)std::numeric_limits<Real>::epsilon() * std::max<long double>(std::max(std::fabs((long double)in.parts[i][d]), std::fabs(corner)), w);
                const long double x = in.parts[i][d];
                if (x < lo - tol || x > hi + tol) res.fail(tag + ":particle-outside-leaf", "particle " + vh::str(i) + " x[" + vh::str(d) + "]=" + vh::str((double)x) + " leaf " + vh::astr(c) + " box [" + vh::str((double)lo) + "," + vh::str((double)hi) + "]");
            }
            if (!in.exactLeaf.empty() && in.exactLeaf[i] != c) res.fail(tag + ":exact-leaf", "particle " + vh::str(i) + " expected leaf " + vh::astr(in.exactLeaf[i]) + " got " + vh::astr(c));
            if (checkZero) { if constexpr (F::NRHS > 0) for (int v = 0; v < F::NRHS; ++v) if (!tbx::allZero(rhs[v][p])) res.fail(tag + ":rhs-not-zero", "particle " + vh::str(i)); }
            ++checked;
        }
    });
    for (long i = 0; i < N; ++i) if (seen[i] != 1) { res.fail(tag + (seen[i] ? ":particle-duplicated" : ":particle-lost"), "original index " + vh::str(i) + " stored " + vh::str(seen[i]) + " times"); break; }
    if (tree.getNbParticles() != N) res.fail(tag + ":nb-particles", vh::str(tree.getNbParticles()));
    long cells = 0;
    tree.applyToAllCells([&](long L, auto& hdr, auto& m, auto& l) {
        Coord<D> c; for (int d = 0; d < D; ++d) c[d] = hdr.boxCoord[d];
        if constexpr (!F::IsMorton) { std::array<long, D> ca; for (int d = 0; d < D; ++d) ca[d] = c[d]; if (tree.getSpacialSystem().getIndexFromBoxPos(ca) != hdr.spaceIndex) res.fail(tag + ":cell-index-vs-coord", "level " + vh::str(L)); }
        else if (hdr.spaceIndex != vm::mortonIndex<D>(c, L)) res.fail(tag + ":cell-index-vs-coord", "level " + vh::str(L) + " spaceIndex " + vh::str(hdr.spaceIndex) + " coord " + vh::astr(c));
        if (checkZero) {
            if (m && !tbx::allZero(m->get())) res.fail(tag + ":multipole-not-zero", "level " + vh::str(L) + " cell " + vh::astr(c));
            if (l && !tbx::allZero(l->get())) res.fail(tag + ":local-not-zero", "level " + vh::str(L) + " cell " + vh::astr(c));
        }
        ++cells;
    });
    res.ev("particles-checked", checked); res.ev("cells-checked", cells);
}

//================================================================================================ C07 structure checks
template <class F, class Tree> void checkStructure(const Tree& tree, long H, long blockSize, bool ogp, Result& res, const std::string& tag) {
    constexpr int D = F::D;
    if (H <= 0) return;
    std::vector<std::vector<long>> levelIdx(H);
    std::vector<std::vector<Coord<D>>> levelCoord(H);
    const long bs = tree.getNbElementsPerGroup();
    if (blockSize > 0 && bs != blockSize) res.fail(tag + ":block-size-recorded", vh::str(bs) + " vs requested " + vh::str(blockSize));
    if (bs < 1) res.fail(tag + ":block-size-nonpositive", vh::str(bs));
    for (long L = 0; L < H; ++L) {
        const auto& groups = tree.getCellGroupsAtLevel(L);
        if (long(groups.size()) != tree.getNbCellGroupsAtLevel(L)) res.fail(tag + ":nb-groups", "level " + vh::str(L));
        long prev = -1;
        for (const auto& g : groups) {
            const long n = g.getNbCells();
            if (n < 1) { res.fail(tag + ":empty-group", "level " + vh::str(L)); continue; }
            if (g.getStartingSpacialIndex() != g.getCellSpacialIndex(0) || g.getEndingSpacialIndex() != g.getCellSpacialIndex(n - 1))
                res.fail(tag + ":group-header-range", "level " + vh::str(L) + " header [" + vh::str(g.getStartingSpacialIndex()) + "," + vh::str(g.getEndingSpacialIndex()) + "] content [" + vh::str(g.getCellSpacialIndex(0)) + "," + vh::str(g.getCellSpacialIndex(n - 1)) + "]");
            if (!ogp && n > bs) res.fail(tag + ":group-exceeds-block-size", "level " + vh::str(L) + " group of " + vh::str(n) + " > " + vh::str(bs));
            if (ogp && L == H - 1 && n > bs) res.fail(tag + ":leaf-group-exceeds-block-size", "group of " + vh::str(n) + " > " + vh::str(bs));
            for (long i = 0; i < n; ++i) {
                const long idx = g.getCellSpacialIndex(i);
                if (idx <= prev) res.fail(tag + ":cells-not-strictly-increasing", "level " + vh::str(L) + " index " + vh::str(idx) + " after " + vh::str(prev));
                prev = idx;
                levelIdx[L].push_back(idx);
                Coord<D> c; for (int d = 0; d < D; ++d) c[d] = g.getCellBoxCoord(i)[d];
                if (g.getCellSymbData(i).spaceIndex != idx) res.fail(tag + ":cell-header-index", "level " + vh::str(L));
                levelCoord[L].push_back(c);
            }
        }
    }
    // ancestor closure (on coordinates, by the model; for a non-Morton ordering on indices with the documented parent rule)
    for (long L = H - 2; L >= 0; --L) {
        if constexpr (F::IsMorton) {
            std::set<Coord<D>> want; for (const auto& c : levelCoord[L + 1]) want.insert(vm::parentOf<D>(c));
            std::set<Coord<D>> got(levelCoord[L].begin(), levelCoord[L].end());
            if (got.size() != levelCoord[L].size()) res.fail(tag + ":duplicate-cell", "level " + vh::str(L));
            if (want != got) {
                for (const auto& c : want) if (!got.count(c)) { res.fail(tag + ":missing-parent", "level " + vh::str(L) + " cell " + vh::astr(c)); break; }
                for (const auto& c : got) if (!want.count(c)) { res.fail(tag + ":cell-without-child", "level " + vh::str(L) + " cell " + vh::astr(c)); break; }
            }
        } else {
            std::set<long> want; for (long i : levelIdx[L + 1]) want.insert(tree.getSpacialSystem().getParentIndex(i));
            std::set<long> got(levelIdx[L].begin(), levelIdx[L].end());
            if (want != got) res.fail(tag + ":parent-index-closure", "level " + vh::str(L));
        }
    }
    // leaf cell groups <-> particle groups
    const auto& pgs = tree.getParticleGroups();
    const auto& lgs = tree.getLeafGroups();
    if (long(pgs.size()) != tree.getNbParticleGroups()) res.fail(tag + ":nb-particle-groups", "");
    if (pgs.size() != lgs.size()) res.fail(tag + ":leaf-vs-particle-groups-count", vh::str(lgs.size()) + " vs " + vh::str(pgs.size()));
    long totalParts = 0;
    for (size_t gi = 0; gi < std::min(pgs.size(), lgs.size()); ++gi) {
        const auto& pg = pgs[gi]; const auto& lg = lgs[gi];
        if (pg.getNbLeaves() != lg.getNbCells()) { res.fail(tag + ":leaf-vs-particle-group-size", "group " + vh::str(gi)); continue; }
        if (pg.getStartingSpacialIndex() != lg.getStartingSpacialIndex() || pg.getEndingSpacialIndex() != lg.getEndingSpacialIndex()) res.fail(tag + ":leaf-vs-particle-group-range", "group " + vh::str(gi));
        long off = 0;
        for (long i = 0; i < pg.getNbLeaves(); ++i) {
            if (pg.getLeafSpacialIndex(i) != lg.getCellSpacialIndex(i)) res.fail(tag + ":leaf-vs-cell-index", "group " + vh::str(gi) + " leaf " + vh::str(i));
            for (int d = 0; d < D; ++d) if (pg.getLeafBoxCoord(i)[d] != lg.getCellBoxCoord(i)[d]) { res.fail(tag + ":leaf-vs-cell-coord", "group " + vh::str(gi) + " leaf " + vh::str(i)); break; }
            const auto& lh = pg.getLeafSymbData(i);
            if (lh.offSet != off) res.fail(tag + ":leaf-offset-not-contiguous", "group " + vh::str(gi) + " leaf " + vh::str(i) + " offset " + vh::str(lh.offSet) + " expected " + vh::str(off));
            if (lh.nbParticles != pg.getNbParticlesInLeaf(i) || lh.nbParticles < 1) res.fail(tag + ":leaf-count", "group " + vh::str(gi));
            off += lh.nbParticles;
        }
        if (off != pg.getNbParticles()) res.fail(tag + ":group-particle-count", "group " + vh::str(gi) + " leaves sum to " + vh::str(off) + " header says " + vh::str(pg.getNbParticles()));
        totalParts += pg.getNbParticles();
    }
    if (totalParts != tree.getNbParticles()) res.fail(tag + ":total-particle-count", vh::str(totalParts) + " vs " + vh::str(tree.getNbParticles()));
    // one-group-per-parent mode: every parent group covers exactly the parents of one child group not already covered
    if (ogp) for (long L = H - 2; L >= 0; --L) {
        const auto& lower = tree.getCellGroupsAtLevel(L + 1);
        const auto& upper = tree.getCellGroupsAtLevel(L);
        std::set<long> covered; size_t ui = 0;
        for (const auto& lg : lower) {
            std::vector<long> fresh;
            for (long i = 0; i < lg.getNbCells(); ++i) { const long p = lg.getCellSpacialIndex(i) >> D; if (!covered.count(p) && (fresh.empty() || fresh.back() != p)) fresh.push_back(p); }
            if (fresh.empty()) continue;
            if (ui >= upper.size()) { res.fail(tag + ":ogp-missing-parent-group", "level " + vh::str(L)); break; }
            std::vector<long> got; for (long i = 0; i < upper[ui].getNbCells(); ++i) got.push_back(upper[ui].getCellSpacialIndex(i));
            if (got != fresh) res.fail(tag + ":ogp-parent-group-content", "level " + vh::str(L) + " parent group " + vh::str(ui));
            for (long p : fresh) covered.insert(p);
            ++ui;
        }
        if (ui != upper.size()) res.fail(tag + ":ogp-extra-parent-group", "level " + vh::str(L));
    }
    long total = 0; for (auto& v : levelIdx) total += long(v.size());
    res.ev("structure-cells-checked", total);
}

//================================================================================================ C16 lookups
// The order of queries is part of a lookup history (an implementation may remember the previous answer): ascending order in half of
// the calls, a random order in the others, and the series always ends on hits (last, first or a random present index), so that whatever
// follows - more queries, a rebuild, an execution - starts from "the previous query found something".
inline void orderQueries(std::vector<long>& qs, const std::map<long, std::pair<long, long>>& present, vh::Rng& r) {
    if (r.coin()) for (size_t i = qs.size(); i > 1; --i) std::swap(qs[i - 1], qs[r.below(i)]);
    if (present.empty()) return;
    auto it = present.begin(); std::advance(it, long(r.below(present.size())));
    qs.push_back(it->first);
    qs.push_back(r.coin(0.7) ? present.rbegin()->first : present.begin()->first);
}

template <class F, class Tree> void checkLookups(Tree& tree, long H, vh::Rng& r, bool exhaustive, Result& res, const std::string& tag) {
    constexpr int D = F::D;
    const typename F::Space& space = tree.getSpacialSystem();
    long queries = 0, hits = 0;
    for (long L = 0; L < H; ++L) {
        // brute-force scan: index -> (group number, position)
        std::map<long, std::pair<long, long>> present;
        auto& groups = tree.getCellGroupsAtLevel(L);
        for (size_t g = 0; g < groups.size(); ++g) for (long i = 0; i < groups[g].getNbCells(); ++i) present[groups[g].getCellSpacialIndex(i)] = {long(g), i};
        const long ub = space.getUpperBound(L);
        std::vector<long> qs;
        if (exhaustive && ub <= 5000) for (long q = -2; q <= ub + 2; ++q) qs.push_back(q);
        else {
            for (auto& kv : present) { if (r.coin(0.3) || present.size() < 200) { qs.push_back(kv.first); qs.push_back(kv.first + 1); qs.push_back(kv.first - 1); } }
            for (int i = 0; i < 300; ++i) qs.push_back(long(r.below(uint64_t(ub + 4))) - 2);
            qs.push_back(-1); qs.push_back(-2); qs.push_back(ub); qs.push_back(ub + 1); qs.push_back(ub * 2 + 7);
        }
        orderQueries(qs, present, r);
        for (long q : qs) {
            auto found = tree.findGroupWithCell(L, q);
            auto it = present.find(q);
            ++queries;
            if (it == present.end()) { if (found) res.fail(tag + ":cell-found-but-absent", "level " + vh::str(L) + " index " + vh::str(q)); }
            else {
                ++hits;
                if (!found) { res.fail(tag + ":cell-present-not-found", "level " + vh::str(L) + " index " + vh::str(q)); continue; }
                auto& grp = found->first.get();
                if (&grp != &groups[it->second.first]) res.fail(tag + ":cell-wrong-group", "level " + vh::str(L) + " index " + vh::str(q));
                else if (found->second != it->second.second || grp.getCellSpacialIndex(found->second) != q) res.fail(tag + ":cell-wrong-position", "level " + vh::str(L) + " index " + vh::str(q) + " pos " + vh::str(found->second));
            }
        }
        // group-level primitives against linear scans
        for (size_t g = 0; g < groups.size(); ++g) {
            const auto& grp = groups[g];
            for (int t = 0; t < 12; ++t) {
                const long q = (t < 4) ? grp.getStartingSpacialIndex() - 2 + t : (t < 8) ? grp.getEndingSpacialIndex() - 2 + (t - 4) : grp.getStartingSpacialIndex() + long(r.below(uint64_t(grp.getEndingSpacialIndex() - grp.getStartingSpacialIndex() + 1)));
                std::optional<long> want; for (long i = 0; i < grp.getNbCells(); ++i) if (grp.getCellSpacialIndex(i) == q) { want = i; break; }
                const auto got = grp.getElementFromSpacialIndex(q);
                ++queries;
                if (bool(got) != bool(want) || (got && *got != *want)) res.fail(tag + ":group-element-from-index", "level " + vh::str(L) + " q " + vh::str(q));
                if (L > 0) {
                    const long pq = (q >> D) + (t % 3) - 1;
                    std::optional<long> wantP; for (long i = 0; i < grp.getNbCells(); ++i) if ((grp.getCellSpacialIndex(i) >> D) == pq) { wantP = i; break; }
                    const auto gotP = grp.getElementFromParentIndex(space, pq);
                    ++queries;
                    if (bool(gotP) != bool(wantP) || (gotP && *gotP != *wantP)) res.fail(tag + ":group-element-from-parent", "level " + vh::str(L) + " parent " + vh::str(pq));
                }
            }
        }
    }
    // leaves
    {
        std::map<long, std::pair<long, long>> present;
        auto& pgs = tree.getParticleGroups();
        for (size_t g = 0; g < pgs.size(); ++g) for (long i = 0; i < pgs[g].getNbLeaves(); ++i) present[pgs[g].getLeafSpacialIndex(i)] = {long(g), i};
        const long ub = space.getUpperBound(H - 1);
        std::vector<long> qs;
        if (exhaustive && ub <= 5000) for (long q = -2; q <= ub + 2; ++q) qs.push_back(q);
        else {
            for (auto& kv : present) if (r.coin(0.3) || present.size() < 200) { qs.push_back(kv.first); qs.push_back(kv.first + 1); qs.push_back(kv.first - 1); }
            for (int i = 0; i < 300; ++i) qs.push_back(long(r.below(uint64_t(ub + 4))) - 2);
            qs.push_back(-1); qs.push_back(ub); qs.push_back(ub + 1);
        }
        orderQueries(qs, present, r);
        for (long q : qs) {
            auto found = tree.findGroupWithLeaf(q);
            auto it = present.find(q);
            ++queries;
            if (it == present.end()) { if (found) res.fail(tag + ":leaf-found-but-absent", "index " + vh::str(q)); }
            else {
                ++hits;
                if (!found) { res.fail(tag + ":leaf-present-not-found", "index " + vh::str(q)); continue; }
                auto& grp = found->first.get();
                if (static_cast<const void*>(&grp) != static_cast<const void*>(&pgs[it->second.first]) || found->second != it->second.second || grp.getLeafSpacialIndex(found->second) != q) res.fail(tag + ":leaf-wrong-handle", "index " + vh::str(q));
            }
        }
    }
    // container-level lookup on every particle group: inside gaps, below the first and above the last leaf of the group
    {
        auto& pgs = tree.getParticleGroups();
        for (size_t g = 0; g < pgs.size(); ++g) {
            const auto& grp = pgs[g];
            std::map<long, long> present; for (long i = 0; i < grp.getNbLeaves(); ++i) present[grp.getLeafSpacialIndex(i)] = i;
            const long lo = grp.getStartingSpacialIndex(), hi = grp.getEndingSpacialIndex();
            std::vector<long> qs;
            if (hi - lo <= 300) for (long q = lo - 2; q <= hi + 2; ++q) qs.push_back(q);
            else { for (auto& kv : present) { qs.push_back(kv.first); qs.push_back(kv.first + 1); qs.push_back(kv.first - 1); } qs.push_back(lo - 1); qs.push_back(hi + 1); qs.push_back(hi + 1000); }
            for (long q : qs) {
                const auto got = grp.getElementFromSpacialIndex(q);
                auto it = present.find(q);
                ++queries;
                if (it == present.end()) { if (got) res.fail(tag + ":particle-group-element-found-but-absent", "group " + vh::str(g) + " index " + vh::str(q)); }
                else { ++hits; if (!got || *got != it->second) res.fail(tag + ":particle-group-element-from-index", "group " + vh::str(g) + " index " + vh::str(q)); }
            }
        }
    }
    res.ev("lookup-queries", queries); res.ev("lookup-hits", hits);
}

//================================================================================================ C17 exports
template <class F, class Tree> void checkExports(Tree& tree, const typename F::Parts& input, Result& res, const std::string& tag) {
    using Real = typename F::Real;
    const long N = long(input.size());
    auto data = tree.getAllParticlesData();
    auto rhs = tree.getAllParticlesRhs();
    // values read through applyToAllLeaves by original index
    long checked = 0;
    tree.applyToAllLeaves([&](auto& hdr, const long* idx, auto&& d, auto&& rh) {
        for (long p = 0; p < hdr.nbParticles; ++p) {
            const long i = idx[p];
            if (i < 0 || i >= N) continue;
            for (int v = 0; v < F::NV; ++v) {
                const Real want = Real(d[v][p]);
                if (std::memcmp(&data[i][v], &want, sizeof(Real)) != 0) { res.fail(tag + ":export-data", "entry " + vh::str(i) + " value " + vh::str(v) + " got " + vh::str(double(data[i][v])) + " expected " + vh::str(double(want))); }
            }
            if constexpr (F::NRHS > 0) for (int v = 0; v < F::NRHS; ++v) if (std::memcmp(&rhs[i][v], &rh[v][p], sizeof(typename F::Rhs)) != 0) res.fail(tag + ":export-rhs", "entry " + vh::str(i) + " value " + vh::str(v));
            ++checked;
        }
    });
    for (long i = 0; i < N; ++i) for (int v = 0; v < F::NV; ++v) { const Real want = Real(input[i][v]); if (std::memcmp(&data[i][v], &want, sizeof(Real)) != 0) { res.fail(tag + ":export-data-vs-input", "entry " + vh::str(i) + " value " + vh::str(v)); break; } }
    res.ev("export-entries-checked", checked);
}

} // namespace tr
#endif
