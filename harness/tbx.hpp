// tbfmm-dependent helpers shared by the harness engines: input generation filtered by the library's own
// precondition, tree walking, snapshots. Public API of the library only.
#ifndef VH_TBX_HPP
#define VH_TBX_HPP

#include "common.hpp"
#include "model.hpp"

#include "tbfglobal.hpp"
#include "utils/tbfutils.hpp"
#include "spacial/tbfmortonspaceindex.hpp"
#include "spacial/tbfspacialconfiguration.hpp"
#include "core/tbfcellscontainer.hpp"
#include "core/tbfparticlescontainer.hpp"
#include "core/tbfparticlesorter.hpp"
#include "core/tbftree.hpp"
#include "core/tbftreetsm.hpp"
#include "algorithms/tbfalgorithmutils.hpp"

#include <cmath>
#include <limits>

namespace tbx {

using vm::Coord;

template <class Real, int D> using Config = TbfSpacialConfiguration<Real, D>;
template <class Real, int D, bool P> using Morton = TbfMortonSpaceIndex<D, TbfSpacialConfiguration<Real, D>, P>;

//------------------------------------------------------------------ box geometries
template <class Real, int D> struct Geo { long H; std::array<Real, D> width, center; std::string name; };

template <class Real, int D> Geo<Real, D> genGeo(vh::Rng& r, long H, bool cubic, int kindForce = -1) {
    Geo<Real, D> g; g.H = H;
    const int kind = kindForce >= 0 ? kindForce : int(r.below(5));
    switch (kind) {
    case 0: g.width.fill(Real(1)); g.center.fill(Real(0.5)); g.name = "unit"; break;
    case 1: g.width.fill(Real(2)); g.center.fill(Real(0)); g.name = "sym2"; break;
    case 2: { const Real w = Real(0.37 + 5.0 * r.unit()); g.width.fill(w); for (auto& c : g.center) c = Real(-3.0 + 6.0 * r.unit()); g.name = "scaled"; break; }
    case 3: { const Real w = Real(std::ldexp(1.0, int(r.range(-6, 6)))); g.width.fill(w); for (auto& c : g.center) c = Real(std::ldexp(double(r.range(-8, 8)), -2)); g.name = "dyadic"; break; }
    default: { const Real w = Real(1e-3 + 1e3 * r.unit()); g.width.fill(w); for (auto& c : g.center) c = Real(-1e3 + 2e3 * r.unit()); g.name = "far"; break; }
    }
    if (!cubic && r.coin(0.5)) { for (auto& w : g.width) w = Real(double(w) * (0.5 + r.unit())); g.name += "-aniso"; }
    return g;
}

// The library's own precondition (assert in getTreeCoordinate): 0 <= fl(p - corner) <= width in RealType.
template <class Real, int D, class P> bool validPos(const Config<Real, D>& cfg, const P& p) {
    for (int d = 0; d < D; ++d) {
        const Real rel = p[d] - cfg.getBoxCorner()[d];
        if (!(rel >= Real(0) && rel <= cfg.getBoxWidths()[d])) return false;
    }
    return true;
}

enum Dist { D_UNIFORM = 0, D_CLUSTER, D_LATTICE, D_FACES, D_NEXTAFTER, D_COINCIDENT, D_ONELEAF, D_BOXFACES, D_NB };
inline const char* distName(int d) { static const char* n[] = {"uniform","cluster","lattice","faces","nextafter","coincident","oneleaf","boxfaces"}; return n[d]; }

// One candidate position for distribution `dist` (may be invalid; caller filters).
struct DistState { std::array<double, 8> c; std::array<long, 8> leaf; };
template <class Real, int D> std::array<Real, D> candidate(vh::Rng& r, const Config<Real, D>& cfg, int dist, const std::vector<std::array<Real, D>>& prev, const DistState& st) {
    std::array<Real, D> p;
    const long H = cfg.getTreeHeight();
    const long nl = 1L << (H - 1);
    auto corner = [&](int d) { return cfg.getBoxCorner()[d]; };
    auto width = [&](int d) { return cfg.getBoxWidths()[d]; };
    switch (dist) {
    case D_UNIFORM: for (int d = 0; d < D; ++d) p[d] = corner(d) + Real(r.unit()) * width(d); break;
    case D_CLUSTER: {
        for (int d = 0; d < D; ++d) { double u = st.c[d] + 0.05 * (r.unit() + r.unit() + r.unit() - 1.5); u = std::min(1.0, std::max(0.0, u)); p[d] = corner(d) + Real(u) * width(d); }
        break; }
    case D_LATTICE: for (int d = 0; d < D; ++d) p[d] = corner(d) + Real(double(r.range(0, nl * 4)) / double(nl * 4)) * width(d); break;
    case D_FACES: for (int d = 0; d < D; ++d) { if (r.coin(0.6)) p[d] = corner(d) + Real(double(r.range(0, nl)) / double(nl)) * width(d); else p[d] = corner(d) + Real(r.unit()) * width(d); } break;
    case D_NEXTAFTER: for (int d = 0; d < D; ++d) { Real v = corner(d) + Real(double(r.range(0, nl)) / double(nl)) * width(d); const int k = int(r.range(-2, 2)); for (int i = 0; i < std::abs(k); ++i) v = std::nextafter(v, k > 0 ? std::numeric_limits<Real>::max() : std::numeric_limits<Real>::lowest()); p[d] = v; } break;
    case D_COINCIDENT: if (!prev.empty() && r.coin(0.7)) p = prev[r.below(prev.size())]; else for (int d = 0; d < D; ++d) p[d] = corner(d) + Real(r.unit()) * width(d); break;
    case D_ONELEAF: {
        for (int d = 0; d < D; ++d) p[d] = corner(d) + Real((double(st.leaf[d] % nl) + 0.1 + 0.8 * r.unit()) / double(nl)) * width(d); break; }
    default: /* D_BOXFACES */ for (int d = 0; d < D; ++d) { const int k = int(r.below(4)); if (k == 0) p[d] = corner(d); else if (k == 1) p[d] = corner(d) + width(d); else p[d] = corner(d) + Real(r.unit()) * width(d); } break;
    }
    return p;
}

// N valid positions; rejected candidates are counted, never reported.
template <class Real, int D> std::vector<std::array<Real, D>> genPositions(vh::Rng& r, const Config<Real, D>& cfg, int dist, long N, long* rejected = nullptr) {
    std::vector<std::array<Real, D>> out;
    long rej = 0;
    DistState st;
    for (auto& x : st.c) x = r.unit();
    for (auto& x : st.leaf) x = long(r.below(1u << 20));
    while (long(out.size()) < N) {
        auto p = candidate<Real, D>(r, cfg, dist, out, st);
        if (validPos<Real, D>(cfg, p)) out.push_back(p);
        else if (++rej > 100 * N + 1000) { // fall back to uniform inside
            for (int d = 0; d < D; ++d) p[d] = cfg.getBoxCorner()[d] + Real(0.25 + 0.5 * r.unit()) * cfg.getBoxWidths()[d];
            if (validPos<Real, D>(cfg, p)) out.push_back(p);
        }
    }
    if (rejected) *rejected = rej;
    return out;
}

// Positions realising a leaf-occupancy pattern: `perLeaf` particles strictly inside each listed leaf.
template <class Real, int D> std::vector<std::array<Real, D>> patternPositions(vh::Rng& r, const Config<Real, D>& cfg, const std::vector<Coord<D>>& leaves, int minPer, int maxPer) {
    std::vector<std::array<Real, D>> out;
    const long nl = 1L << (cfg.getTreeHeight() - 1);
    for (const auto& c : leaves) {
        const int n = int(r.range(minPer, maxPer));
        for (int i = 0; i < n; ++i) {
            std::array<Real, D> p;
            for (int d = 0; d < D; ++d) p[d] = cfg.getBoxCorner()[d] + Real((double(c[d]) + 0.25 + 0.5 * r.unit()) / double(nl)) * cfg.getBoxWidths()[d];
            out.push_back(p);
        }
    }
    // shuffle so that insertion order is unrelated to the leaf order
    for (size_t i = out.size(); i > 1; --i) std::swap(out[i - 1], out[r.below(i)]);
    return out;
}

template <int D> std::vector<Coord<D>> leavesFromMask(long H, uint64_t mask) {
    std::vector<Coord<D>> out;
    const long nl = 1L << (H - 1);
    long total = 1; for (int d = 0; d < D; ++d) total *= nl;
    for (long i = 0; i < total; ++i) if ((mask >> i) & 1ULL) {
        Coord<D> c; long v = i; for (int d = D - 1; d >= 0; --d) { c[d] = v % nl; v /= nl; }
        out.push_back(c);
    }
    return out;
}

// Attach extra data values: value v (>= D) of particle i is a recognisable function of (i, v).
template <class Real, int D, int NV> std::vector<std::array<Real, NV>> withExtras(const std::vector<std::array<Real, D>>& pos, uint64_t salt) {
    std::vector<std::array<Real, NV>> out(pos.size());
    for (size_t i = 0; i < pos.size(); ++i) {
        for (int d = 0; d < D; ++d) out[i][d] = pos[i][d];
        for (int v = D; v < NV; ++v) out[i][v] = Real(double(int64_t(vh::mix(salt + uint64_t(v), i) >> 40)) / 4096.0 - 1000.0);
    }
    return out;
}

//------------------------------------------------------------------ tree walking
template <class Tree, int D> struct LeafInfo { Coord<D> coord; long index; };

// per original index: leaf coordinate as recorded in the leaf header
template <int D, class Tree> std::vector<Coord<D>> leafOfParticle(const Tree& tree, long N, bool* okOut = nullptr) {
    std::vector<Coord<D>> res(N);
    std::vector<int> seen(N, 0);
    bool ok = true;
    tree.applyToAllLeaves([&](auto& hdr, const long* idx, auto&&, auto&&) {
        for (long i = 0; i < hdr.nbParticles; ++i) {
            if (idx[i] < 0 || idx[i] >= N) { ok = false; continue; }
            seen[idx[i]]++;
            for (int d = 0; d < D; ++d) res[idx[i]][d] = hdr.boxCoord[d];
        }
    });
    for (long i = 0; i < N; ++i) if (seen[i] != 1) ok = false;
    if (okOut) *okOut = ok;
    return res;
}

template <int D> std::set<Coord<D>> leafSet(const std::vector<Coord<D>>& v) { return std::set<Coord<D>>(v.begin(), v.end()); }

// hash of all symbolic buffers (cell headers, particle positions/indices/headers); must not change during execute()
template <class Tree> uint64_t hashSymbolic(const Tree& tree) {
    uint64_t h = 1469598103934665603ULL;
    for (long L = 0; L < tree.getHeight(); ++L)
        for (const auto& g : tree.getCellGroupsAtLevel(L)) h = vh::fnv(g.getDataPtr(), size_t(g.getDataSize()), h);
    for (const auto& g : tree.getParticleGroups()) h = vh::fnv(g.getDataPtr(), size_t(g.getDataSize()), h);
    return h;
}

template <class T> bool allZero(const T& v) { const unsigned char* p = reinterpret_cast<const unsigned char*>(&v); for (size_t i = 0; i < sizeof(T); ++i) if (p[i]) return false; return true; }

// a configuration TU may force the block-size argument of every generated case (-1 = automatic); 0 = no forcing
inline long& forcedBlockSize() { static long v = 0; return v; }

// largest tree height used for deep sparse trees: indices must fit 63 bits (Dim*(H-1) <= 62), the configuration shifts an int by H-1
// (H <= 31), and the leaf width must stay well above the resolution of the coordinate type (float: 2^-20 of the box)
template <class Real> inline long deepHeightFor(int D) {
    const long byIndex = std::min<long>(31, 62 / D + 1);
    return sizeof(Real) == 4 ? std::min<long>(byIndex, 21) : byIndex;
}
// number of threads of the OpenMP runtime the engine is linked with (no-op in engines built without -fopenmp)
#ifdef _OPENMP
} // namespace tbx
#include <omp.h>
namespace tbx {
inline void setOmpThreads(int t) { omp_set_num_threads(t); }
#else
inline void setOmpThreads(int) {}
#endif
// value given to the TBFMM_BLOCK_SIZE environment variable: mostly small (many groups), sometimes larger than any level
inline long envBlockSize(uint64_t h) { const long big[] = {64, 1000, 100000}; return (h >> 8) % 5 == 0 ? big[(h >> 16) % 3] : 1 + long(h % 7); }
inline std::vector<long> blockSizesFor(long nbLeaves, bool all) {
    std::vector<long> v;
    if (all) { for (long b = 1; b <= nbLeaves + 1; ++b) v.push_back(b); return v; }
    for (long b : {1L, 2L, 3L, 5L, 8L, 13L, 21L, 34L, 55L, 89L, 144L, 233L, 377L, 610L, 987L}) if (b < nbLeaves) v.push_back(b);
    v.push_back(std::max(1L, nbLeaves)); v.push_back(nbLeaves + 1); v.push_back(10000000L);
    return v;
}

} // namespace tbx
#endif
