// Mock of the subset of the StarPU C API that tbfmm's smstarpu executors use, implemented on the harness scheduler
// (rt/sched.hpp). It is OUR READING of the documented contract, not the runtime:
//   - sequential data consistency per data handle in task-insertion order; STARPU_R shared, STARPU_W/STARPU_RW exclusive,
//     STARPU_RW|STARPU_COMMUTE unordered among consecutive commuting tasks but mutually exclusive;
//   - starpu_insert_task copies STARPU_VALUE arguments at insertion; starpu_codelet_unpack_args copies them out in order;
//   - workers are numbered from 0 (starpu_worker_get_id()).
#ifndef VH_MOCK_STARPU_H
#define VH_MOCK_STARPU_H

#include "rt/sched.hpp"
#include <cstdarg>
#include <cstdint>
#include <cstring>
#include <vector>
#include <memory>
#include <functional>

#define STARPU_NMAXBUFS 8
#define STARPU_MAXIMPLEMENTATIONS 4
#define STARPU_MAIN_RAM 0

enum starpu_data_access_mode { STARPU_NONE = 0, STARPU_R = (1 << 0), STARPU_W = (1 << 1), STARPU_RW = (STARPU_R | STARPU_W), STARPU_SCRATCH = (1 << 2), STARPU_REDUX = (1 << 3), STARPU_COMMUTE = (1 << 4) };
#define STARPU_ACCESS_MODE_MAX (1 << 7)
#define STARPU_VALUE (1 << 16)
#define STARPU_PRIORITY (8 << 16)
#define STARPU_NAME (17 << 16)
#define STARPU_CPU (1u << 1)
#define STARPU_CUDA (1u << 3)
enum starpu_worker_archtype { STARPU_CPU_WORKER = 0, STARPU_CUDA_WORKER = 1 };
enum starpu_perfmodel_type { STARPU_PERFMODEL_INVALID = 0, STARPU_PER_ARCH, STARPU_COMMON, STARPU_HISTORY_BASED, STARPU_REGRESSION_BASED };

struct starpu_perfmodel { starpu_perfmodel_type type; const char* symbol; };
typedef void (*starpu_cpu_func_t)(void**, void*);
struct starpu_codelet {
    uint32_t where;
    starpu_cpu_func_t cpu_funcs[STARPU_MAXIMPLEMENTATIONS];
    void* cuda_funcs[STARPU_MAXIMPLEMENTATIONS];
    int nbuffers;
    starpu_data_access_mode modes[STARPU_NMAXBUFS];
    starpu_perfmodel* model;
    const char* name;
};
struct starpu_conf;

struct _vh_starpu_data_state { uintptr_t ptr; size_t size; };
typedef _vh_starpu_data_state* starpu_data_handle_t;
struct starpu_variable_interface { int id; uintptr_t ptr; uintptr_t dev_handle; size_t offset; size_t elemsize; };
#define STARPU_VARIABLE_GET_PTR(interface) (((struct starpu_variable_interface*)(interface))->ptr)
#define STARPU_VARIABLE_GET_ELEMSIZE(interface) (((struct starpu_variable_interface*)(interface))->elemsize)

namespace vh_starpu {
struct State { bool initialised = false; int initCount = 0; bool running = false; long inserted = 0; };
inline State& st() { static State s; return s; }
struct Packed { std::vector<std::vector<unsigned char>> values; };
}

inline int starpu_init(starpu_conf*) { vh_starpu::st().initialised = true; vh_starpu::st().initCount++; return 0; }
inline void starpu_resume() { if (!vh_starpu::st().running) { vsched::beginGraph(); vh_starpu::st().running = true; } }
inline void starpu_pause() { if (vh_starpu::st().running) { vsched::endGraph(); vh_starpu::st().running = false; } }
inline void starpu_shutdown() { if (vh_starpu::st().running) { vsched::endGraph(); vh_starpu::st().running = false; } if (--vh_starpu::st().initCount <= 0) vh_starpu::st().initialised = false; }
inline int starpu_task_wait_for_all() { vsched::waitAll(); return 0; }
inline int starpu_worker_get_id() { return int(vsched::currentWorker()); }
inline unsigned starpu_worker_get_count() { return unsigned(vsched::configuredThreads()); }
inline unsigned starpu_cpu_worker_get_count() { return unsigned(vsched::configuredThreads()); }
inline int starpu_worker_get_count_by_type(starpu_worker_archtype t) { return t == STARPU_CPU_WORKER ? vsched::configuredThreads() : 0; }
inline void starpu_execute_on_each_worker(void (*func)(void*), void* arg, uint32_t where) {
    if (!(where & STARPU_CPU)) return;
    for (int w = 0; w < vsched::configuredThreads(); ++w) vsched::runAsWorker(w, [&] { func(arg); });
}

inline void starpu_variable_data_register(starpu_data_handle_t* h, int /*home_node*/, uintptr_t ptr, size_t size) { *h = new _vh_starpu_data_state{ptr, size}; }
inline int starpu_data_acquire(starpu_data_handle_t, starpu_data_access_mode) { vsched::waitAll(); return 0; }
inline void starpu_data_release(starpu_data_handle_t) {}
inline void starpu_data_unregister(starpu_data_handle_t h) { delete h; }

inline int starpu_insert_task(starpu_codelet* cl, ...) {
    auto packed = std::make_shared<vh_starpu::Packed>();
    std::vector<vsched::Access> acc;
    auto ifaces = std::make_shared<std::vector<starpu_variable_interface>>();
    int prio = 0; const char* name = cl->name ? cl->name : "";
    va_list ap; va_start(ap, cl);
    while (true) {
        const int type = va_arg(ap, int);
        if (type == 0) break;
        if (type == STARPU_VALUE) { void* p = va_arg(ap, void*); const size_t sz = va_arg(ap, size_t); packed->values.emplace_back((unsigned char*)p, (unsigned char*)p + sz); }
        else if (type == STARPU_PRIORITY) prio = va_arg(ap, int);
        else if (type == STARPU_NAME) name = va_arg(ap, const char*);
        else if (type > 0 && type < STARPU_ACCESS_MODE_MAX) {
            starpu_data_handle_t h = va_arg(ap, starpu_data_handle_t);
            const int mode = (type & STARPU_COMMUTE) ? vsched::COMMUTE : ((type & STARPU_W) ? vsched::W : vsched::R);
            acc.push_back(vsched::Access{reinterpret_cast<const void*>(h->ptr), mode});
            ifaces->push_back(starpu_variable_interface{0, h->ptr, h->ptr, 0, h->size});
        } else { fprintf(stderr, "mock starpu: unknown insert_task argument type %d\n", type); abort(); }
    }
    va_end(ap);
    if (int(ifaces->size()) != cl->nbuffers) { fprintf(stderr, "mock starpu: codelet %s declares %d buffers, task passes %zu\n", name, cl->nbuffers, ifaces->size()); abort(); }
    starpu_cpu_func_t fn = cl->cpu_funcs[0];
    vh_starpu::st().inserted++;
    vsched::submit([fn, packed, ifaces] {
        std::vector<void*> bufs; for (auto& i : *ifaces) bufs.push_back(&i);
        fn(bufs.data(), packed.get());
    }, acc, prio, name);
    return 0;
}

inline void starpu_codelet_unpack_args(void* cl_arg, ...) {
    auto* packed = static_cast<vh_starpu::Packed*>(cl_arg);
    va_list ap; va_start(ap, cl_arg);
    for (auto& v : packed->values) { void* dst = va_arg(ap, void*); if (!dst) break; memcpy(dst, v.data(), v.size()); }
    va_end(ap);
}

#endif
