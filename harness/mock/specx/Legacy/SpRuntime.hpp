// Mock of the subset of the Specx API that tbfmm's smspecx executors use, implemented on the harness scheduler
// (rt/sched.hpp). It is OUR READING of the documented contract, not the runtime:
//   - tasks are inserted by one thread and may run in any order compatible with sequential data consistency;
//   - SpRead = shared read; SpWrite = exclusive write; SpCommutativeWrite = unordered among themselves but mutually
//     exclusive, ordered against reads and writes like a write;
//   - worker threads are numbered from 1 (SpUtils::GetThreadId()), the inserting thread does not get a kernel of its own.
#ifndef VH_MOCK_SPRUNTIME_HPP
#define VH_MOCK_SPRUNTIME_HPP

#include "rt/sched.hpp"
#include <tuple>
#include <utility>
#include <functional>
#include <type_traits>

enum class SpSpeculativeModel { SP_NO_SPEC, SP_MODEL_1, SP_MODEL_2, SP_MODEL_3 };

struct SpPriority { int value; explicit SpPriority(int v) : value(v) {} };

template <class T> struct SpReadAccess { const T* ptr; using Type = const T&; static constexpr int mode = vsched::R; };
template <class T> struct SpWriteAccess { T* ptr; using Type = T&; static constexpr int mode = vsched::W; };
template <class T> struct SpCommutativeWriteAccess { T* ptr; using Type = T&; static constexpr int mode = vsched::COMMUTE; };

template <class T> SpReadAccess<T> SpRead(const T& v) { return SpReadAccess<T>{&v}; }
template <class T> SpWriteAccess<T> SpWrite(T& v) { return SpWriteAccess<T>{&v}; }
template <class T> SpCommutativeWriteAccess<T> SpCommutativeWrite(T& v) { return SpCommutativeWriteAccess<T>{&v}; }

struct SpUtils {
    static long int GetThreadId() { return vsched::currentWorker() + 1; }
    static int DefaultNumThreads() { return vsched::configuredThreads(); }
};

struct SpWorkerTeam { int nb; };
struct SpWorkerTeamBuilder { static SpWorkerTeam TeamOfCpuWorkers() { return SpWorkerTeam{SpUtils::DefaultNumThreads()}; } static SpWorkerTeam TeamOfCpuWorkers(int n) { return SpWorkerTeam{n}; } };

class SpComputeEngine {
    int nb; bool started = false, stopped = false;
    template <SpSpeculativeModel> friend class SpTaskGraph;
public:
    explicit SpComputeEngine(SpWorkerTeam t) : nb(t.nb) {}
    SpComputeEngine(const SpComputeEngine&) = delete;
    ~SpComputeEngine() { stopIfNotAlreadyStopped(); }
    int getNbCpuWorkers() const { return nb; }
    void stopIfNotAlreadyStopped() { if (started && !stopped) { vsched::endGraph(); stopped = true; } }
};

template <SpSpeculativeModel Model>
class SpTaskGraph {
    SpComputeEngine* engine = nullptr;
    template <class Tuple, size_t... I> void submitImpl(int prio, Tuple&& t, std::index_sequence<I...>) {
        constexpr size_t N = std::tuple_size<std::decay_t<Tuple>>::value; // accesses..., callable
        auto callable = std::get<N - 1>(t);
        std::vector<vsched::Access> acc{vsched::Access{static_cast<const void*>(std::get<I>(t).ptr), std::decay_t<decltype(std::get<I>(t))>::mode}...};
        auto ptrs = std::make_tuple(std::get<I>(t).ptr...);
        vsched::submit([callable, ptrs]() mutable { callable(*std::get<I>(ptrs)...); }, acc, prio, "specx");
    }
public:
    SpTaskGraph() = default;
    SpTaskGraph(const SpTaskGraph&) = delete;
    void computeOn(SpComputeEngine& ce) { engine = &ce; if (!ce.started) { vsched::beginGraph(); ce.started = true; } }
    template <class... Args> void task(SpPriority p, Args&&... args) {
        auto t = std::forward_as_tuple(std::forward<Args>(args)...);
        submitImpl(p.value, t, std::make_index_sequence<sizeof...(Args) - 1>{});
    }
    template <class A0, class... Args, typename = std::enable_if_t<!std::is_same<std::decay_t<A0>, SpPriority>::value>> void task(A0&& a0, Args&&... args) {
        auto t = std::forward_as_tuple(std::forward<A0>(a0), std::forward<Args>(args)...);
        submitImpl(0, t, std::make_index_sequence<sizeof...(Args)>{});
    }
    void waitAllTasks() { vsched::waitAll(); }
};

#endif
