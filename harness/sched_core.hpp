// Engine h_sched: the OpenMP executors driven through the scheduler shim (rt/sched.cpp) under hostile schedules.
// Monitors: O-dag (declared dependencies cover every observed conflict), O-seq (bit-identical to the sequential
// executor), P-rec argument checks, kernel-instance ownership, plus whatever sanitizer the build carries.
#ifndef VH_SCHED_CORE_HPP
#define VH_SCHED_CORE_HPP

#include "tsm_core.hpp"
#include "cnt_core.hpp"
#include "per_core.hpp"
#include "rt/sched.hpp"
#include "algorithms/openmp/tbfopenmpalgorithm.hpp"
#include "algorithms/openmp/tbfopenmpalgorithmtsm.hpp"

namespace sch {

using fmm::Segment;
using vh::Result;
using vm::Coord;

struct Sched { int threads; int policy; uint64_t seed; };
inline std::string schedStr(const Sched& s) { return std::string(vsched::policyName(s.policy)) + "/T" + vh::str(s.threads) + "/s" + vh::str(s.seed); }

// O-dag: every pair of tasks whose observed accesses conflict must be ordered by the declared graph (or be commute partners)
template <int D> void checkDag(const vsched::Log& log, const std::vector<typename vp::RecCtx<D>::Access>& acc, Result& res, const std::string& tag) {
    const size_t n = log.tasks.size();
    if (n == 0) return;
    const size_t words = (n + 63) / 64;
    std::vector<uint64_t> reach(n * words, 0);
    long edges = 0;
    for (size_t t = 0; t < n; ++t) for (long p : log.tasks[t].preds) {
        ++edges;
        if (p < 0 || size_t(p) >= t) { res.fail(tag + ":dag-edge-not-backward", "task " + vh::str(t)); continue; }
        for (size_t w = 0; w < words; ++w) reach[t * words + w] |= reach[size_t(p) * words + w];
        reach[t * words + size_t(p) / 64] |= (1ULL << (size_t(p) % 64));
    }
    auto ordered = [&](long a, long b) { if (a > b) std::swap(a, b); return (reach[size_t(b) * words + size_t(a) / 64] >> (size_t(a) % 64)) & 1ULL; };
    std::map<const void*, std::vector<std::tuple<long, bool, int, int>>> byObj;
    long outside = 0;
    for (const auto& a : acc) { if (a.task < 0) { ++outside; continue; } byObj[a.obj].emplace_back(a.task, a.write, a.kind, a.op); }
    long pairs = 0;
    for (auto& kv : byObj) {
        auto& v = kv.second;
        std::sort(v.begin(), v.end()); v.erase(std::unique(v.begin(), v.end()), v.end());
        for (size_t i = 0; i < v.size(); ++i) for (size_t j = i + 1; j < v.size(); ++j) {
            const long a = std::get<0>(v[i]), b = std::get<0>(v[j]);
            if (a == b || !(std::get<1>(v[i]) || std::get<1>(v[j]))) continue;
            ++pairs;
            if (ordered(a, b)) continue;
            const auto& ex = log.tasks[size_t(a)].exclusive;
            if (std::find(ex.begin(), ex.end(), b) != ex.end()) continue;
            static const char* kinds[] = {"multipole", "local", "rhs", "other"};
            res.fail(tag + ":unordered-conflict:" + vm::opName(std::get<3>(v[i])) + "-" + vm::opName(std::get<3>(v[j])) + ":" + kinds[std::get<2>(v[i]) & 3],
                     "tasks " + vh::str(a) + " and " + vh::str(b) + " both touch the same " + kinds[std::get<2>(v[i]) & 3] + " object (at least one writes) but no declared dependency orders them");
        }
    }
    res.ev("dag-tasks", long(n)); res.ev("dag-edges", edges); res.ev("dag-conflicting-pairs-checked", pairs);
    if (outside) res.ev("kernel-calls-outside-tasks", outside);
    if (log.tasksCreatedByNonMaster) res.fail(tag + ":task-created-by-non-master-thread", vh::str(log.tasksCreatedByNonMaster) + " tasks were created by threads other than the master");
}

inline std::vector<Sched> schedulesFor(vh::Rng& r, bool thorough, int flavourTsan) {
    std::vector<Sched> out;
    const int Ts[] = {1, 2, 3, 4, 8, 16};
    if (flavourTsan) { // overlap matters: wave policies, several threads
        for (int p : {int(vsched::WAVE_RANDOM), int(vsched::WAVE_EAGER)}) for (int T : {2, 4, 8, 16}) if (thorough || r.coin(0.5)) out.push_back({T, p, r.next() % 100000});
        return out;
    }
    for (int p = 0; p < vsched::NB_POLICIES; ++p) {
        if (thorough) { for (int T : Ts) out.push_back({T, p, r.next() % 100000}); }
        else { out.push_back({Ts[r.below(6)], p, r.next() % 100000}); }
    }
    out.push_back({1, vsched::DEFER_ALL_FIFO, 1}); // the decisive schedule for lifetimes
    out.push_back({16, vsched::WAVE_RANDOM, r.next() % 100000});
    return out;
}

//================================================================================================ single tree
template <class E, template <class, class, class> class Algo = TbfOpenmpAlgorithm> void ompSingle(const fmm::Conf<E>& c, const std::vector<Sched>& scheds, Result& res, const char* tag, bool tsanLight, bool directSum = true, bool threadsMayChange = true) {
    constexpr int D = E::Cfg::Dim;
    using Real = typename E::Cfg::RealType;
    const long N = long(c.parts.size());
    // sequential reference
    fmm::PolyRun<E, typename E::PolyKernel> seq; seq.build(c);
    { TbfAlgorithm<Real, typename E::PolyKernel, typename E::Space> a(*seq.cfg, c.upper); a.execute(*seq.tree); }
    const auto ref = fmm::snapshotTree<E>(*seq.tree, N);
    if (directSum) { seq.reference(false, res); seq.compare(res, std::string(tag) + ":sequential-poly-direct-sum"); }
    std::set<uint64_t> distinctOrders;
    for (const auto& s : scheds) {
        fmm::PolyRun<E, typename E::CheckedPoly> pr; pr.build(c);
        vp::RecCtx<D> rc;
        fmm::fillRecCtx<E>(rc, *pr.tree, *pr.cfg, &c.parts, &c.parts);
        rc.logAccesses = !tsanLight; rc.record = !tsanLight;
        rc.currentTask = [] { return vsched::currentTask(); };
        rc.currentWorker = [] { return vsched::currentWorker(); };
        E::CheckedPoly::globalCtx() = &rc;
        // OpenMP only (omp_set_num_threads may be called between construction and execute(); a Specx / StarPU team is fixed when the runtime starts):
        // a third of the runs build the executor while fewer threads are configured than at execute() time (it must grow its per-thread kernels)
        vsched::configure(threadsMayChange && s.seed % 3 == 0 ? 1 : s.threads, s.policy, s.seed);
        {
            // a quarter of the runs hand the executor a user-built kernel object (lvalue: the copy path) instead of letting it build one
            using AlgoT = Algo<Real, typename E::CheckedPoly, typename E::Space>;
            const typename E::CheckedPoly userKernel(*pr.cfg);
            auto algo = (s.seed % 4 == 1) ? std::make_unique<AlgoT>(*pr.cfg, userKernel, c.upper) : std::make_unique<AlgoT>(*pr.cfg, c.upper);
            if (s.seed % 4 == 1) res.ev("executors-built-from-a-user-kernel");
            vsched::configure(s.threads, s.policy, s.seed);
            algo->execute(*pr.tree);
        }
        const vsched::Log log = vsched::lastLog();
        const std::string stag = std::string(tag) + ":";
        for (auto& v : rc.violations) res.fail(stag + v.first, v.second + " [schedule " + schedStr(s) + "]");
        const auto got = fmm::snapshotTree<E>(*pr.tree, N);
        if (!(got == ref)) {
            const char* what = got.rhs != ref.rhs ? "results" : got.cells != ref.cells ? "expansions" : "symbolic";
            res.fail(stag + "differs-from-sequential:" + what, "schedule " + schedStr(s) + " tasks=" + vh::str(log.tasks.size()));
        }
        if (!tsanLight) {
            checkDag<D>(log, rc.accesses, res, stag + "odag");
            bool okIdx = true; const auto leafOf = tbx::leafOfParticle<D>(*pr.tree, N, &okIdx);
            vm::Cells<D> cells; cells.build(c.geo.H, tbx::leafSet<D>(leafOf));
            fmm::compareElems<D>(rc.elems, vm::expectedElems<D>(cells, E::Space::IsPeriodic, c.upper), res, stag + "events");
            res.ev("elementary-interactions", (long long)rc.elems.size());
        }
        distinctOrders.insert(log.orderHash() ^ (uint64_t(log.tasks.size()) << 48));
        res.ev("schedules-executed"); res.ev("tasks-executed", (long long)log.tasks.size()); res.ev("tasks-run-during-creation", log.tasksRunDuringCreation);
        if (log.maxOverlap > 1) res.ev("steps-with-overlap");
        res.events["max-tasks-overlapped"] = std::max<long long>(res.events["max-tasks-overlapped"], log.maxOverlap);
    }
    res.ev("distinct-execution-orders", (long long)distinctOrders.size());
}

//================================================================================================ target/source
template <class E, template <class, class, class> class AlgoTsm = TbfOpenmpAlgorithmTsm> void ompTsm(const fmm::TsmConf<E>& c, const std::vector<Sched>& scheds, Result& res, const char* tag, bool tsanLight, bool directSum = true, bool threadsMayChange = true) {
    constexpr int D = E::Cfg::Dim;
    using Real = typename E::Cfg::RealType;
    fmm::TsmPolyRun<E> seq; seq.build(c);
    { TbfAlgorithmTsm<Real, typename E::PolyKernel, typename E::Space> a(*seq.cfg, c.upper); a.execute(*seq.tree); }
    const auto ref = seq.snapshot();
    if (directSum) { seq.reference(); seq.compare(res, std::string(tag) + ":sequential-poly-direct-sum"); }
    std::set<uint64_t> distinctOrders;
    for (const auto& s : scheds) {
        fmm::TsmPolyRun<E> pr; pr.build(c);
        vp::RecCtx<D> rc; pr.fillRec(rc, c);
        rc.logAccesses = !tsanLight; rc.record = !tsanLight;
        rc.currentTask = [] { return vsched::currentTask(); };
        rc.currentWorker = [] { return vsched::currentWorker(); };
        E::CheckedPoly::globalCtx() = &rc;
        vsched::configure(threadsMayChange && s.seed % 3 == 0 ? 1 : s.threads, s.policy, s.seed);
        {
            using AlgoT = AlgoTsm<Real, typename E::CheckedPoly, typename E::Space>;
            const typename E::CheckedPoly userKernel(*pr.cfg);
            auto algo = (s.seed % 4 == 1) ? std::make_unique<AlgoT>(*pr.cfg, userKernel, c.upper) : std::make_unique<AlgoT>(*pr.cfg, c.upper);
            if (s.seed % 4 == 1) res.ev("executors-built-from-a-user-kernel");
            vsched::configure(s.threads, s.policy, s.seed);
            algo->execute(*pr.tree);
        }
        const vsched::Log log = vsched::lastLog();
        const std::string stag = std::string(tag) + ":";
        for (auto& v : rc.violations) res.fail(stag + v.first, v.second + " [schedule " + schedStr(s) + "]");
        const auto got = pr.snapshot();
        if (!(got == ref)) res.fail(stag + "differs-from-sequential:" + (got.rhs != ref.rhs ? "results" : (got.m != ref.m || got.l != ref.l) ? "expansions" : "symbolic"), "schedule " + schedStr(s));
        if (!tsanLight) {
            checkDag<D>(log, rc.accesses, res, stag + "odag");
            bool o1, o2; const auto ls = fmm::leafOfSrc<D>(*pr.tree, pr.Ns, &o1); const auto lt = fmm::leafOfTgt<D>(*pr.tree, pr.Nt, &o2);
            vm::Cells<D> cs, ct; cs.build(c.geo.H, tbx::leafSet<D>(ls)); ct.build(c.geo.H, tbx::leafSet<D>(lt));
            fmm::compareElems<D>(rc.elems, vm::expectedElemsTsm<D>(cs, ct, E::Space::IsPeriodic, c.upper), res, stag + "events");
            res.ev("elementary-interactions", (long long)rc.elems.size());
        }
        distinctOrders.insert(log.orderHash() ^ (uint64_t(log.tasks.size()) << 48));
        res.ev("schedules-executed"); res.ev("tasks-executed", (long long)log.tasks.size()); res.ev("tasks-run-during-creation", log.tasksRunDuringCreation);
        res.events["max-tasks-overlapped"] = std::max<long long>(res.events["max-tasks-overlapped"], log.maxOverlap);
    }
    res.ev("distinct-execution-orders", (long long)distinctOrders.size());
}

template <class E> Segment c03Segment(long nQ, long nT, bool tsan) {
    Segment s; s.name = std::string("c03-omp-") + E::orderingName() + "-D" + vh::str(E::Cfg::Dim);
    s.count = [=](bool th) { return th ? nT : nQ; };
    s.run = [=](long kk, uint64_t seed, bool th, Result& res) {
        vh::Rng r(vh::mix(seed ^ 0xC03, uint64_t(kk) * 4 + E::Cfg::Dim));
        auto c = fmm::randomConf<E>(r, vh::mix(seed, kk), 250, false, E::Space::IsPeriodic ? 2 : (r.coin(0.8) ? 3 : 1));
        if (c.blockSize > 8 && r.coin(0.6)) c.blockSize = 1 + long(r.below(6)); // many groups => many tasks
        const auto sc = schedulesFor(r, th, tsan);
        res.desc = fmm::confDesc<E>(c) + " executor=TbfOpenmpAlgorithm schedules=" + vh::str(sc.size()) + " e.g. " + (sc.empty() ? "" : schedStr(sc[0]));
        ompSingle<E>(c, sc, res, "c03", tsan);
        res.sig = fmm::confSig<E>(c, vh::mix(c.seed, 9)); res.nontrivial = res.events["tasks-executed"] > long(sc.size()) * 3;
    };
    return s;
}

template <class E> Segment c09OmpSegment(long nQ, long nT, bool tsan) {
    Segment s; s.name = std::string("c09-omp-") + E::orderingName() + "-D" + vh::str(E::Cfg::Dim);
    s.count = [=](bool th) { return th ? nT : nQ; };
    s.run = [=](long kk, uint64_t seed, bool th, Result& res) {
        vh::Rng r(vh::mix(seed ^ 0xC09, uint64_t(kk) * 4 + E::Cfg::Dim));
        auto c = fmm::randomTsmConf<E>(r, vh::mix(seed, kk), 200, E::Space::IsPeriodic ? 2 : (r.coin(0.8) ? 3 : 1));
        if (c.blockSize > 8 && r.coin(0.6)) c.blockSize = 1 + long(r.below(6));
        const auto sc = schedulesFor(r, th, tsan);
        res.desc = fmm::tsmDesc<E>(c) + " executor=TbfOpenmpAlgorithmTsm schedules=" + vh::str(sc.size());
        ompTsm<E>(c, sc, res, "c09", tsan);
        res.sig = "tsm-omp:" + vh::str(vh::mix(c.seed, 10)); res.nontrivial = res.events["tasks-executed"] > long(sc.size()) * 3;
    };
    return s;
}

// C10 with the OpenMP executors around the periodic top-tree step (documented four-call sequence), shim schedules
template <class E> Segment c10OmpSegment(long nQ, long nT) {
    constexpr int D = E::Cfg::Dim;
    Segment s; s.name = std::string("c10-omp-D") + vh::str(D);
    s.count = [=](bool th) { return th ? nT : nQ; };
    s.run = [=](long kk, uint64_t seed, bool th, Result& res) {
        vh::Rng r(vh::mix(seed ^ 0xC10E, uint64_t(kk) * 4 + D));
        const long extraMax = D == 3 ? 3 : 5;
        const long extra = (kk % 7 == 0) ? extraMax : r.range(-1, th ? extraMax : std::min<long>(extraMax, 2));
        const int nSched = th ? 4 : 2;
        auto setup = [](vp::RecCtx<D>& rc) { rc.currentTask = [] { return vsched::currentTask(); }; rc.currentWorker = [] { return vsched::currentWorker(); }; };
        std::string last;
        auto before = [&] { const Sched sd{int(1 + r.below(8)), int(r.below(vsched::NB_POLICIES)), r.next() % 100000}; vsched::configure(sd.threads, sd.policy, sd.seed); last = schedStr(sd); res.ev("schedules-executed"); };
        if (kk % 2 == 0) {
            auto c = fmm::randomConf<E>(r, vh::mix(seed, kk), extra >= 4 ? 40 : 100, false, 2);
            if (r.coin(0.3)) { const typename E::Cfg cfg(c.geo.H, c.geo.width, c.geo.center);
                c.parts = tbx::withExtras<typename E::Cfg::RealType, D, E::NV>(tbx::genPositions<typename E::Cfg::RealType, D>(r, cfg, tbx::D_BOXFACES, long(c.parts.size())), c.seed); c.dist = "boxfaces"; }
            c.upper = 1;
            if (c.blockSize > 8 && r.coin(0.6)) c.blockSize = 1 + long(r.below(6));
            res.desc = fmm::confDesc<E>(c) + " extraLevels=" + vh::str(extra) + " top-tree=single executor=TbfOpenmpAlgorithm x" + vh::str(nSched) + " schedule sets";
            for (int q = 0; q < nSched; ++q) fmm::periodicSingle<E, TbfOpenmpAlgorithm>(c, extra, res, "c10", setup, before);
            res.sig = "per-omp:" + fmm::confSig<E>(c, vh::mix(c.seed, 5)) + ",x" + vh::str(extra); res.nontrivial = c.parts.size() >= 1;
        } else {
            auto c = fmm::randomTsmConf<E>(r, vh::mix(seed, kk), extra >= 4 ? 40 : 80, 2);
            c.upper = 1;
            if (c.blockSize > 8 && r.coin(0.6)) c.blockSize = 1 + long(r.below(6));
            res.desc = fmm::tsmDesc<E>(c) + " extraLevels=" + vh::str(extra) + " top-tree=target/source executor=TbfOpenmpAlgorithmTsm x" + vh::str(nSched) + " schedule sets";
            for (int q = 0; q < nSched; ++q) fmm::periodicTsm<E, TbfOpenmpAlgorithmTsm>(c, extra, res, "c10", setup, before);
            res.sig = "per-omp-tsm:D" + vh::str(D) + "," + vh::str(vh::mix(c.seed, 6)) + ",x" + vh::str(extra); res.nontrivial = true;
        }
        if (!res.violations.empty()) res.desc += " last schedule " + last;
    };
    return s;
}

// C08 on the other executors: one input under many groupings (explicit sizes, automatic, TBFMM_BLOCK_SIZE; both modes) on
// TbfOpenmpAlgorithm, TbfAlgorithmTsm and TbfOpenmpAlgorithmTsm: identical multiset of elementary interactions (== model),
// identical expansions (by cell) and results (by original index).
template <class E> Segment c08ExecSegment(long nQ, long nT) {
    constexpr int D = E::Cfg::Dim;
    using Real = typename E::Cfg::RealType;
    Segment s; s.name = std::string("c08-exec-") + E::orderingName() + "-D" + vh::str(D);
    s.count = [=](bool th) { return th ? nT : nQ; };
    s.run = [=](long kk, uint64_t seed, bool th, Result& res) {
        vh::Rng r(vh::mix(seed ^ 0xC08E, uint64_t(kk) * 4 + D));
        auto pickSched = [&] { return Sched{int(1 + r.below(8)), int(r.below(vsched::NB_POLICIES)), r.next() % 100000}; };
        const long envBs = tbx::envBlockSize(vh::mix(seed, kk));
        auto groupingsFor = [&](long n) { auto b = tbx::blockSizesFor(n, n <= 10); if (!th && b.size() > 8) { std::vector<long> c2{b[0], b[b.size() - 3], b[b.size() - 2]}; for (int i = 0; i < 3; ++i) c2.push_back(b[r.below(b.size())]); b = c2; } b.push_back(-1); b.push_back(-2); return b; };
        long groupings = 0;
        if (kk % 2 == 0) {
            auto c = fmm::randomTsmConf<E>(r, vh::mix(seed, kk), th ? 200 : 100, E::Space::IsPeriodic ? 2 : 1);
            c.upper = E::Space::IsPeriodic ? 1 : 2;
            const auto bss = groupingsFor(long(c.src.size() + c.tgt.size()));
            res.desc = fmm::tsmDesc<E>(c) + " executor=TbfAlgorithmTsm+TbfOpenmpAlgorithmTsm groupings=" + vh::str(bss.size() * 2);
            bool haveRef = false; typename fmm::TsmPolyRun<E>::Snap ref; std::vector<vm::Elem> refElems; std::string refName;
            for (long bs : bss) for (int ogp = 0; ogp < 2; ++ogp) for (int ex = 0; ex < 2; ++ex) {
                auto cc = c; cc.ogp = ogp; cc.blockSize = bs < 0 ? -1 : bs;
                if (bs == -2) setenv("TBFMM_BLOCK_SIZE", vh::str(envBs).c_str(), 1);
                fmm::TsmPolyRun<E> pr; pr.build(cc);
                if (bs == -2) unsetenv("TBFMM_BLOCK_SIZE");
                const std::string name = "bs=" + vh::str(bs) + ",ogp=" + vh::str(ogp) + (ex ? ",openmp" : ",sequential");
                const long gs = pr.tree->getNbElementsPerGroupSource(), gt = pr.tree->getNbElementsPerGroupTarget();
                if (gs < 1 || gt < 1) res.fail("c08:block-size-not-positive", name + ": source " + vh::str(gs) + " target " + vh::str(gt));
                if (bs == -2 && (gs != envBs || gt != envBs)) res.fail("c08:env-block-size-ignored", "TBFMM_BLOCK_SIZE=" + vh::str(envBs) + " but trees use " + vh::str(gs) + "/" + vh::str(gt));
                if (bs > 0 && (gs != bs || gt != bs)) res.fail("c08:explicit-block-size-ignored", name);
                vp::RecCtx<D> rc; pr.fillRec(rc, cc);
                rc.currentTask = [] { return vsched::currentTask(); }; rc.currentWorker = [] { return vsched::currentWorker(); };
                E::CheckedPoly::globalCtx() = &rc;
                const auto sd = pickSched();
                if (ex) { vsched::configure(sd.threads, sd.policy, sd.seed); auto a = std::make_unique<TbfOpenmpAlgorithmTsm<Real, typename E::CheckedPoly, typename E::Space>>(*pr.cfg, cc.upper); a->execute(*pr.tree); }
                else { TbfAlgorithmTsm<Real, typename E::CheckedPoly, typename E::Space> a(*pr.cfg, cc.upper); a.execute(*pr.tree); }
                for (auto& v : rc.violations) res.fail("c08:" + v.first, v.second + " [" + name + "]");
                std::sort(rc.elems.begin(), rc.elems.end());
                auto snap = pr.snapshot(); snap.symbolic = 0;
                if (!haveRef) {
                    haveRef = true; ref = snap; refElems = rc.elems; refName = name;
                    bool o1, o2; const auto ls = fmm::leafOfSrc<D>(*pr.tree, pr.Ns, &o1); const auto lt = fmm::leafOfTgt<D>(*pr.tree, pr.Nt, &o2);
                    vm::Cells<D> cs, ct; cs.build(c.geo.H, tbx::leafSet<D>(ls)); ct.build(c.geo.H, tbx::leafSet<D>(lt));
                    fmm::compareElems<D>(refElems, vm::expectedElemsTsm<D>(cs, ct, E::Space::IsPeriodic, cc.upper), res, "c08:events-vs-model");
                    pr.reference(); pr.compare(res, "c08:poly-direct-sum");
                    res.nontrivial = !refElems.empty();
                } else {
                    if (rc.elems != refElems) fmm::compareElems<D>(rc.elems, refElems, res, "c08:events-differ");
                    if (snap.rhs != ref.rhs) res.fail("c08:results-differ", name + " vs " + refName);
                    if (snap.m != ref.m || snap.l != ref.l) res.fail("c08:expansions-differ", name + " vs " + refName);
                }
                res.ev("elementary-interactions", (long long)rc.elems.size());
                ++groupings;
            }
            res.sig = "tsm-groupings:" + vh::str(vh::mix(c.seed, 8));
        } else {
            auto c = fmm::randomConf<E>(r, vh::mix(seed, kk), th ? 300 : 150, false, E::Space::IsPeriodic ? 2 : 1);
            c.upper = E::Space::IsPeriodic ? 1 : 2;
            const long N = long(c.parts.size());
            const auto bss = groupingsFor(N);
            res.desc = fmm::confDesc<E>(c) + " executor=TbfOpenmpAlgorithm groupings=" + vh::str(bss.size() * 2);
            fmm::PolyRun<E, typename E::PolyKernel> seq; seq.build(c);
            { TbfAlgorithm<Real, typename E::PolyKernel, typename E::Space> a(*seq.cfg, c.upper); a.execute(*seq.tree); }
            auto ref = fmm::snapshotTree<E>(*seq.tree, N);
            bool okIdx = true; const auto leafOf = tbx::leafOfParticle<D>(*seq.tree, N, &okIdx);
            vm::Cells<D> cells; cells.build(c.geo.H, tbx::leafSet<D>(leafOf));
            auto refElems = vm::expectedElems<D>(cells, E::Space::IsPeriodic, c.upper); std::sort(refElems.begin(), refElems.end());
            for (long bs : bss) for (int ogp = 0; ogp < 2; ++ogp) {
                auto cc = c; cc.oneGroupPerParent = ogp; cc.blockSize = bs < 0 ? -1 : bs;
                if (bs == -2) setenv("TBFMM_BLOCK_SIZE", vh::str(envBs).c_str(), 1);
                fmm::PolyRun<E, typename E::CheckedPoly> pr; pr.build(cc);
                if (bs == -2) unsetenv("TBFMM_BLOCK_SIZE");
                const std::string name = "bs=" + vh::str(bs) + ",ogp=" + vh::str(ogp);
                if (pr.tree->getNbElementsPerGroup() < 1) res.fail("c08:block-size-not-positive", name);
                if (bs == -2 && pr.tree->getNbElementsPerGroup() != envBs) res.fail("c08:env-block-size-ignored", name);
                vp::RecCtx<D> rc; fmm::fillRecCtx<E>(rc, *pr.tree, *pr.cfg, &c.parts, &c.parts);
                rc.currentTask = [] { return vsched::currentTask(); }; rc.currentWorker = [] { return vsched::currentWorker(); };
                E::CheckedPoly::globalCtx() = &rc;
                const auto sd = pickSched();
                vsched::configure(sd.threads, sd.policy, sd.seed);
                { auto a = std::make_unique<TbfOpenmpAlgorithm<Real, typename E::CheckedPoly, typename E::Space>>(*pr.cfg, cc.upper); a->execute(*pr.tree); }
                for (auto& v : rc.violations) res.fail("c08:" + v.first, v.second + " [" + name + " " + schedStr(sd) + "]");
                std::sort(rc.elems.begin(), rc.elems.end());
                if (rc.elems != refElems) fmm::compareElems<D>(rc.elems, refElems, res, "c08:events-differ");
                const auto got = fmm::snapshotTree<E>(*pr.tree, N);
                if (got.rhs != ref.rhs) res.fail("c08:results-differ", name + " (OpenMP, " + schedStr(sd) + ") vs sequential");
                if (got.cells != ref.cells) res.fail("c08:expansions-differ", name + " (OpenMP, " + schedStr(sd) + ") vs sequential");
                res.ev("elementary-interactions", (long long)rc.elems.size());
                ++groupings;
            }
            res.nontrivial = !refElems.empty(); res.sig = "omp-groupings:" + fmm::confSig<E>(c, vh::mix(c.seed, 8));
        }
        res.ev("groupings", groupings);
    };
    return s;
}

// C12 on the other executors: every upper working level 0..height+1 (levels at or beyond the leaf level included) and staged
// flag histories, on TbfOpenmpAlgorithm, TbfAlgorithmTsm and TbfOpenmpAlgorithmTsm. Oracles: P-rec events == model with that
// upper level (so nothing above it), bit-identical to the sequential executor with the same level, staged == one full run.
template <class E> Segment c12ExecSegment(long nQ, long nT) {
    constexpr int D = E::Cfg::Dim;
    using Real = typename E::Cfg::RealType;
    Segment s; s.name = std::string("c12-exec-") + E::orderingName() + "-D" + vh::str(D);
    s.count = [=](bool th) { return th ? nT : nQ; };
    s.run = [=](long kk, uint64_t seed, bool th, Result& res) {
        using namespace TbfAlgorithmUtils;
        vh::Rng r(vh::mix(seed ^ 0xC12E, uint64_t(kk) * 4 + D));
        const int sub = int(kk % 6);
        auto pick = [&](int n) { std::vector<Sched> v; for (int i = 0; i < n; ++i) v.push_back({int(1 + r.below(8)), int(r.below(vsched::NB_POLICIES)), r.next() % 100000}); return v; };
        const long defUp = E::Space::IsPeriodic ? 1 : 2;
        if (sub == 0) {
            auto c = fmm::randomConf<E>(r, vh::mix(seed, kk), 120, false, E::Space::IsPeriodic ? 2 : 1);
            const long H = c.geo.H;
            res.desc = fmm::confDesc<E>(c) + " executor=TbfOpenmpAlgorithm history=upper-levels 0.." + vh::str(H + 1);
            for (long up = 0; up <= H + 1; ++up) { auto cc = c; cc.upper = up; ompSingle<E>(cc, pick(th ? 3 : 1), res, "c12", false, up == defUp); res.ev("upper-level-runs"); }
            res.sig = "omp-upper:" + fmm::confSig<E>(c, vh::mix(c.seed, 12)); res.nontrivial = H >= 3;
        } else if (sub == 1) {
            auto c = fmm::randomTsmConf<E>(r, vh::mix(seed, kk), 100, E::Space::IsPeriodic ? 2 : 1);
            const long H = c.geo.H;
            res.desc = fmm::tsmDesc<E>(c) + " executor=TbfAlgorithmTsm+TbfOpenmpAlgorithmTsm history=upper-levels 0.." + vh::str(H + 1);
            for (long up = 0; up <= H + 1; ++up) {
                auto cc = c; cc.upper = up;
                ompTsm<E, TbfAlgorithmTsm>(cc, {{1, 0, 0}}, res, "c12", false, up == defUp);        // the sequential executor through the same monitors
                ompTsm<E>(cc, pick(th ? 3 : 1), res, "c12", false, false);
                res.ev("upper-level-runs");
            }
            res.sig = "tsm-upper:" + vh::str(vh::mix(c.seed, 12)); res.nontrivial = H >= 3;
        } else if (sub == 2) {
            // staged histories on the OpenMP executor
            auto c = fmm::randomConf<E>(r, vh::mix(seed, kk), 150, false, E::Space::IsPeriodic ? 2 : 1);
            const long N = long(c.parts.size());
            fmm::PolyRun<E, typename E::PolyKernel> seq; seq.build(c);
            { TbfAlgorithm<Real, typename E::PolyKernel, typename E::Space> a(*seq.cfg, c.upper); a.execute(*seq.tree); }
            const auto ref = fmm::snapshotTree<E>(*seq.tree, N);
            const auto& hs = fmm::flagHistories();
            const size_t nh = th ? 24 : 8;
            res.desc = fmm::confDesc<E>(c) + " executor=TbfOpenmpAlgorithm history=staged x" + vh::str(nh);
            for (size_t q = 0; q < nh; ++q) {
                const auto& h = fmm::pickHistory(q, r);
                const auto sd = pick(1)[0];
                fmm::PolyRun<E, typename E::PolyKernel> pr; pr.build(c);
                vsched::configure(sd.threads, sd.policy, sd.seed);
                auto algo = std::make_unique<TbfOpenmpAlgorithm<Real, typename E::PolyKernel, typename E::Space>>(*pr.cfg, c.upper);
                for (int st : h) algo->execute(*pr.tree, st);
                if (!(fmm::snapshotTree<E>(*pr.tree, N) == ref)) { std::string hs2; for (int st : h) hs2 += vh::str(st) + " "; res.fail("c12:staged-differs-from-full", "TbfOpenmpAlgorithm stages " + hs2 + " schedule " + schedStr(sd)); }
                res.ev("staged-histories");
            }
            res.sig = "omp-staged:" + fmm::confSig<E>(c, vh::mix(c.seed, 13)); res.nontrivial = N >= 2;
        } else if (sub == 4) {
            // every single flag alone on the OpenMP executor: only that operator is called (events == model masked by the flag), only its output kind changes
            auto c = fmm::randomConf<E>(r, vh::mix(seed, kk), 120, false, E::Space::IsPeriodic ? 2 : 1);
            const long N = long(c.parts.size());
            res.desc = fmm::confDesc<E>(c) + " executor=TbfOpenmpAlgorithm history=single-flags";
            const int flags[6] = {TbfP2P, TbfP2M, TbfM2M, TbfM2L, TbfL2L, TbfL2P};
            for (int f : flags) {
                fmm::CheckedRun<E, TbfOpenmpAlgorithm> cr; cr.build(c, res); if (!cr.ok) return;
                cr.rc.currentTask = [] { return vsched::currentTask(); }; cr.rc.currentWorker = [] { return vsched::currentWorker(); };
                auto conf = [&] { const auto sd = pick(1)[0]; vsched::configure(sd.threads, sd.policy, sd.seed); };
                cr.rc.record = false;
                for (int g : {TbfP2M, TbfM2M, TbfM2L, TbfL2L}) { if (g == f || f == TbfP2P) break; conf(); cr.algo->execute(*cr.pr.tree, g); }
                cr.rc.record = true; cr.rc.elems.clear(); cr.rc.calls.fill(0);
                const auto before = fmm::snapshotTree<E>(*cr.pr.tree, N);
                conf(); cr.algo->execute(*cr.pr.tree, f);
                const auto after = fmm::snapshotTree<E>(*cr.pr.tree, N);
                fmm::drainRec<D>(cr.rc, res, "c12:");
                const unsigned allowed = f == TbfP2P ? ((1u << vm::OP_P2P) | (1u << vm::OP_P2PINNER)) : f == TbfP2M ? (1u << vm::OP_P2M) : f == TbfM2M ? (1u << vm::OP_M2M)
                                       : f == TbfM2L ? (1u << vm::OP_M2L) : f == TbfL2L ? (1u << vm::OP_L2L) : (1u << vm::OP_L2P);
                for (int op = 0; op < vm::OP_NB; ++op) if (cr.rc.calls[op] && !(allowed & (1u << op))) res.fail(std::string("c12:flag-triggers-other-operator:") + vm::opName(op), "TbfOpenmpAlgorithm flag " + vh::str(f) + " called " + vm::opName(op));
                fmm::compareElems<D>(cr.rc.elems, vm::expectedElems<D>(cr.cells, E::Space::IsPeriodic, c.upper, allowed), res, "c12:flag-events");
                bool mChanged = false, lChanged = false;
                for (auto& kv : before.cells) { const auto& a = after.cells.at(kv.first); if (a.first != kv.second.first) mChanged = true; if (a.second != kv.second.second) lChanged = true; }
                const bool wM = (f == TbfP2M || f == TbfM2M), wL = (f == TbfM2L || f == TbfL2L), wR = (f == TbfL2P || f == TbfP2P);
                if (mChanged && !wM) res.fail("c12:writes-foreign-output:multipole", "TbfOpenmpAlgorithm flag " + vh::str(f));
                if (lChanged && !wL) res.fail("c12:writes-foreign-output:local", "TbfOpenmpAlgorithm flag " + vh::str(f));
                if (before.rhs != after.rhs && !wR) res.fail("c12:writes-foreign-output:rhs", "TbfOpenmpAlgorithm flag " + vh::str(f));
                if (before.symbolic != after.symbolic) res.fail("c12:writes-foreign-output:symbolic", "TbfOpenmpAlgorithm flag " + vh::str(f));
                res.ev("single-flag-runs");
            }
            res.sig = "omp-single:" + fmm::confSig<E>(c, vh::mix(c.seed, 14)); res.nontrivial = N >= 2;
        } else if (sub == 5) {
            // every single flag alone on both target/source executors
            auto c = fmm::randomTsmConf<E>(r, vh::mix(seed, kk), 100, E::Space::IsPeriodic ? 2 : 1);
            res.desc = fmm::tsmDesc<E>(c) + " executor=TbfAlgorithmTsm+TbfOpenmpAlgorithmTsm history=single-flags";
            const int flags[6] = {TbfP2P, TbfP2M, TbfM2M, TbfM2L, TbfL2L, TbfL2P};
            for (int ex = 0; ex < 2; ++ex) for (int f : flags) {
                fmm::TsmPolyRun<E> pr; pr.build(c);
                vp::RecCtx<D> rc; pr.fillRec(rc, c);
                rc.currentTask = [] { return vsched::currentTask(); }; rc.currentWorker = [] { return vsched::currentWorker(); };
                E::CheckedPoly::globalCtx() = &rc;
                auto seqA = std::make_unique<TbfAlgorithmTsm<Real, typename E::CheckedPoly, typename E::Space>>(*pr.cfg, c.upper);
                auto ompA = std::make_unique<TbfOpenmpAlgorithmTsm<Real, typename E::CheckedPoly, typename E::Space>>(*pr.cfg, c.upper);
                auto run = [&](int g) { if (ex) { const auto sd = pick(1)[0]; vsched::configure(sd.threads, sd.policy, sd.seed); ompA->execute(*pr.tree, g); } else seqA->execute(*pr.tree, g); };
                rc.record = false;
                for (int g : {TbfP2M, TbfM2M, TbfM2L, TbfL2L}) { if (g == f || f == TbfP2P) break; run(g); }
                rc.record = true; rc.elems.clear(); rc.calls.fill(0);
                const auto before = pr.snapshot();
                run(f);
                const auto after = pr.snapshot();
                for (auto& v : rc.violations) res.fail("c12:" + v.first, v.second);
                const unsigned allowed = f == TbfP2P ? (1u << vm::OP_P2PTSM) : f == TbfP2M ? (1u << vm::OP_P2M) : f == TbfM2M ? (1u << vm::OP_M2M)
                                       : f == TbfM2L ? (1u << vm::OP_M2L) : f == TbfL2L ? (1u << vm::OP_L2L) : (1u << vm::OP_L2P);
                const char* exn = ex ? "TbfOpenmpAlgorithmTsm" : "TbfAlgorithmTsm";
                for (int op = 0; op < vm::OP_NB; ++op) if (rc.calls[op] && !(allowed & (1u << op))) res.fail(std::string("c12:flag-triggers-other-operator:") + vm::opName(op), std::string(exn) + " flag " + vh::str(f) + " called " + vm::opName(op));
                bool o1, o2; const auto ls = fmm::leafOfSrc<D>(*pr.tree, pr.Ns, &o1); const auto lt = fmm::leafOfTgt<D>(*pr.tree, pr.Nt, &o2);
                vm::Cells<D> cs, ct; cs.build(c.geo.H, tbx::leafSet<D>(ls)); ct.build(c.geo.H, tbx::leafSet<D>(lt));
                std::vector<vm::Elem> want; for (const auto& e : vm::expectedElemsTsm<D>(cs, ct, E::Space::IsPeriodic, c.upper)) if (allowed & (1u << e.op)) want.push_back(e);
                fmm::compareElems<D>(rc.elems, want, res, "c12:flag-events");
                const bool wM = (f == TbfP2M || f == TbfM2M), wL = (f == TbfM2L || f == TbfL2L), wR = (f == TbfL2P || f == TbfP2P);
                if (before.m != after.m && !wM) res.fail("c12:writes-foreign-output:multipole", std::string(exn) + " flag " + vh::str(f));
                if (before.l != after.l && !wL) res.fail("c12:writes-foreign-output:local", std::string(exn) + " flag " + vh::str(f));
                if (before.rhs != after.rhs && !wR) res.fail("c12:writes-foreign-output:rhs", std::string(exn) + " flag " + vh::str(f));
                if (before.symbolic != after.symbolic) res.fail("c12:writes-foreign-output:symbolic", std::string(exn) + " flag " + vh::str(f));
                res.ev("single-flag-runs");
            }
            res.sig = "tsm-single:" + vh::str(vh::mix(c.seed, 14)); res.nontrivial = true;
        } else {
            // staged histories on both target/source executors
            auto c = fmm::randomTsmConf<E>(r, vh::mix(seed, kk), 100, E::Space::IsPeriodic ? 2 : 1);
            fmm::TsmPolyRun<E> seq; seq.build(c);
            { TbfAlgorithmTsm<Real, typename E::PolyKernel, typename E::Space> a(*seq.cfg, c.upper); a.execute(*seq.tree); }
            const auto ref = seq.snapshot();
            const auto& hs = fmm::flagHistories();
            const size_t nh = th ? 24 : 8;
            res.desc = fmm::tsmDesc<E>(c) + " executor=TbfAlgorithmTsm+TbfOpenmpAlgorithmTsm history=staged x" + vh::str(nh);
            for (size_t q = 0; q < nh; ++q) {
                const auto& h = fmm::pickHistory(q, r);
                std::string hs2; for (int st : h) hs2 += vh::str(st) + " ";
                { fmm::TsmPolyRun<E> pr; pr.build(c); TbfAlgorithmTsm<Real, typename E::PolyKernel, typename E::Space> a(*pr.cfg, c.upper); for (int st : h) a.execute(*pr.tree, st);
                  if (!(pr.snapshot() == ref)) res.fail("c12:staged-differs-from-full", "TbfAlgorithmTsm stages " + hs2); }
                const auto sd = pick(1)[0];
                { fmm::TsmPolyRun<E> pr; pr.build(c); vsched::configure(sd.threads, sd.policy, sd.seed);
                  auto a = std::make_unique<TbfOpenmpAlgorithmTsm<Real, typename E::PolyKernel, typename E::Space>>(*pr.cfg, c.upper); for (int st : h) a->execute(*pr.tree, st);
                  if (!(pr.snapshot() == ref)) res.fail("c12:staged-differs-from-full", "TbfOpenmpAlgorithmTsm stages " + hs2 + " schedule " + schedStr(sd)); }
                res.ev("staged-histories", 2);
            }
            res.sig = "tsm-staged:" + vh::str(vh::mix(c.seed, 13)); res.nontrivial = true;
        }
    };
    return s;
}

// C12 upper working levels 0..height+1 for any task-based executor pair (used by the mock Specx / StarPU engines)
template <class E, template <class, class, class> class Algo, template <class, class, class> class AlgoTsm> Segment c12UpperSegment(const std::string& name, long nQ, long nT) {
    Segment s; s.name = "c12-upper-" + name + "-D" + vh::str(E::Cfg::Dim);
    s.count = [=](bool th) { return th ? nT : nQ; };
    s.run = [=](long kk, uint64_t seed, bool th, Result& res) {
        vh::Rng r(vh::mix(seed ^ 0xC12F, uint64_t(kk) * 4 + E::Cfg::Dim));
        auto pick = [&](int n) { std::vector<Sched> v; for (int i = 0; i < n; ++i) v.push_back({int(1 + r.below(8)), int(r.below(vsched::NB_POLICIES)), r.next() % 100000}); return v; };
        const long defUp = E::Space::IsPeriodic ? 1 : 2;
        const std::string tag = "c12-" + name;
        if (kk % 2 == 0) {
            auto c = fmm::randomConf<E>(r, vh::mix(seed, kk), 100, false, 1);
            const long H = c.geo.H;
            res.desc = fmm::confDesc<E>(c) + " executor=" + name + "(mock runtime) history=upper-levels 0.." + vh::str(H + 1);
            for (long up = 0; up <= H + 1; ++up) { auto cc = c; cc.upper = up; ompSingle<E, Algo>(cc, pick(th ? 2 : 1), res, tag.c_str(), false, up == defUp, false); res.ev("upper-level-runs"); }
            res.sig = name + "-upper:" + fmm::confSig<E>(c, vh::mix(c.seed, 12)); res.nontrivial = H >= 3;
        } else {
            auto c = fmm::randomTsmConf<E>(r, vh::mix(seed, kk), 80, 1);
            const long H = c.geo.H;
            res.desc = fmm::tsmDesc<E>(c) + " executor=" + name + "Tsm(mock runtime) history=upper-levels 0.." + vh::str(H + 1);
            for (long up = 0; up <= H + 1; ++up) { auto cc = c; cc.upper = up; ompTsm<E, AlgoTsm>(cc, pick(th ? 2 : 1), res, tag.c_str(), false, up == defUp, false); res.ev("upper-level-runs"); }
            res.sig = name + "-tsm-upper:" + vh::str(vh::mix(c.seed, 12)); res.nontrivial = H >= 3;
        }
    };
    return s;
}

template <class E> Segment c18OmpSegment(long nQ, long nT, bool tsan) {
    constexpr int D = E::Cfg::Dim;
    using Real = typename E::Cfg::RealType;
    Segment s; s.name = std::string("c18-omp-") + E::orderingName() + "-D" + vh::str(D);
    s.count = [=](bool th) { return th ? nT : nQ; };
    s.run = [=](long kk, uint64_t seed, bool th, Result& res) {
        vh::Rng r(vh::mix(seed ^ 0xC18, uint64_t(kk) * 4 + D));
        auto c = fmm::randomConf<E>(r, vh::mix(seed, kk), 250, false, E::Space::IsPeriodic ? 2 : (r.coin(0.8) ? 3 : 1));
        if (c.blockSize > 8 && r.coin(0.6)) c.blockSize = 1 + long(r.below(6));
        const long N = long(c.parts.size());
        const auto sc = schedulesFor(r, th, tsan);
        res.desc = fmm::confDesc<E>(c) + " executor=TbfOpenmpAlgorithm kernel=counter<P-poly> schedules=" + vh::str(sc.size());
        fmm::PolyRun<E, typename E::PolyKernel> seq; seq.build(c);
        { TbfAlgorithm<Real, typename E::PolyKernel, typename E::Space> a(*seq.cfg, c.upper); a.execute(*seq.tree); }
        const auto ref = fmm::snapshotTree<E>(*seq.tree, N);
        bool ok = true; const auto leafOf = tbx::leafOfParticle<D>(*seq.tree, N, &ok);
        vm::Cells<D> cells; cells.build(c.geo.H, tbx::leafSet<D>(leafOf));
        const auto e = fmm::expectedCounts<D>(cells, leafOf, E::Space::IsPeriodic, c.upper);
        using K = TbfInteractionCounter<typename E::PolyKernel>;
        for (const auto& sd : sc) {
            fmm::PolyRun<E, K> pr; pr.build(c);
            vsched::configure(sd.threads, sd.policy, sd.seed);
            const K userKernel(*pr.cfg);   // a third of the runs: per-worker copies made from a (fresh, unused) user-built counter kernel
            auto algo = (sd.seed % 3 == 1) ? std::make_unique<TbfOpenmpAlgorithm<Real, K, typename E::Space>>(*pr.cfg, userKernel, c.upper) : std::make_unique<TbfOpenmpAlgorithm<Real, K, typename E::Space>>(*pr.cfg, c.upper);
            algo->execute(*pr.tree);
            if (!(fmm::snapshotTree<E>(*pr.tree, N) == ref)) res.fail("c18:wrapped-results-differ", "counter<P-poly> under " + schedStr(sd));
            fmm::mergeAndCheck<decltype(*algo), K>(*algo, e, 1, r, res, "c18", "schedule " + schedStr(sd));
            if (r.coin(0.3)) { algo->execute(*pr.tree); fmm::mergeAndCheck<decltype(*algo), K>(*algo, e, 2, r, res, "c18", "two executes, schedule " + schedStr(sd)); }
            else if (sd.threads >= 2 && r.coin(0.45)) {
                // the same executor used again after the user lowered the number of threads (omp_set_num_threads): what the workers that are
                // no longer used counted during the first execute() still belongs to the totals (counters are cumulative per executor)
                const int fewer = 1 + int(r.below(uint64_t(sd.threads - 1)));
                vsched::configure(fewer, sd.policy, sd.seed + 1);
                algo->execute(*pr.tree);
                fmm::mergeAndCheck<decltype(*algo), K>(*algo, e, 2, r, res, "c18", "two executes, threads lowered " + vh::str(sd.threads) + "->" + vh::str(fewer) + " in between, schedule " + schedStr(sd));
                res.ev("executes-after-lowering-threads");
            }
            if (r.coin(0.3)) {   // partial operator set on a fresh executor
                using namespace TbfAlgorithmUtils;
                const int fl = r.coin() ? (TbfP2M | TbfM2M) : int(1 + r.below(63));
                fmm::PolyRun<E, K> p2; p2.build(c);
                vsched::configure(sd.threads, sd.policy, sd.seed);
                auto a2 = std::make_unique<TbfOpenmpAlgorithm<Real, K, typename E::Space>>(*p2.cfg, c.upper);
                a2->execute(*p2.tree, fl);
                fmm::mergeAndCheck<decltype(*a2), K>(*a2, fmm::maskCounts(e, fl), 1, r, res, "c18", "operators=" + vh::str(fl) + " schedule " + schedStr(sd));
                res.ev("partial-operator-runs");
            }
            res.ev("schedules-executed");
        }
        res.sig = std::string("omp:") + fmm::confSig<E>(c, vh::mix(c.seed, 19)); res.nontrivial = e.M2L + e.P2P > 0;
    };
    return s;
}

} // namespace sch
#endif
