#include "common.hpp"
namespace ix { struct Segment { std::string name; std::function<long(bool)> count; std::function<void(long, uint64_t, bool, vh::Result&)> run; }; }
#define DECL(k, d, p) void vh_index_segments_k##k##_##d##_##p(std::vector<ix::Segment>&);
DECL(0,1,0) DECL(0,2,0) DECL(0,3,0) DECL(0,4,0) DECL(0,1,1) DECL(0,2,1) DECL(0,3,1) DECL(0,4,1) DECL(1,3,0)
int main(int argc, char** argv) {
    std::vector<ix::Segment> list;
    vh_index_segments_k0_1_0(list); vh_index_segments_k0_2_0(list); vh_index_segments_k0_3_0(list); vh_index_segments_k0_4_0(list);
    vh_index_segments_k0_1_1(list); vh_index_segments_k0_2_1(list); vh_index_segments_k0_3_1(list); vh_index_segments_k0_4_1(list);
    vh_index_segments_k1_3_0(list);
    vh::Mode m; m.name = "c11";
    m.count = [list](bool th) { long n = 0; for (auto& s : list) n += s.count(th); return n; };
    m.run = [list](long k, uint64_t seed, bool th, vh::Result& r) {
        for (auto& s : list) { const long c = s.count(th); if (k < c) { s.run(k, seed, th, r); r.desc = "[" + s.name + " #" + std::to_string(k) + "] " + r.desc; return; } k -= c; }
        r.skipped = true; r.skipReason = "out of range";
    };
    return vh::harness_main(argc, argv, {m});
}
