// Case enumeration + per-property runners for the sequential single-tree engine.
#ifndef VH_FMM_MODES_HPP
#define VH_FMM_MODES_HPP

#include "fmm_core.hpp"

namespace fmm {

inline long maxHeightFor(int D) { return D == 1 ? 8 : D == 2 ? 6 : D == 3 ? 5 : 4; }

template <class E> Conf<E> randomConf(vh::Rng& r, uint64_t seed, long maxN, bool cubic = false, long minH = 1) {
    constexpr int D = E::Cfg::Dim;
    using Real = typename E::Cfg::RealType;
    Conf<E> c;
    c.seed = seed;
    // mostly shallow trees (many particles per level); sometimes a deep sparse one: heights up to the largest whose indices fit 63 bits
    // (the configuration object shifts an int by height-1, hence <= 31), few particles, so that every level has few cells
    const bool deep = r.coin(0.06);
    const long H = deep ? r.range(maxHeightFor(D) + 1, tbx::deepHeightFor<Real>(D)) : r.range(minH, maxHeightFor(D));
    if (deep) maxN = std::min<long>(maxN, 40);
    c.geo = tbx::genGeo<Real, D>(r, H, cubic);
    const typename E::Cfg cfg(H, c.geo.width, c.geo.center);
    const int dist = int(r.below(tbx::D_NB));
    c.dist = tbx::distName(dist);
    long N = 1 + long(r.below(uint64_t(maxN)));
    if (r.coin(0.1)) N = 1 + long(r.below(3));
    const auto pos = tbx::genPositions<Real, D>(r, cfg, dist, N);
    c.parts = tbx::withExtras<Real, D, E::NV>(pos, seed);
    long nbLeavesMax = 1; for (int d = 0; d < D; ++d) nbLeavesMax *= (1L << (H - 1));
    const auto bss = tbx::blockSizesFor(std::min(nbLeavesMax, N), false);
    c.blockSize = bss[r.below(bss.size())];
    if (r.coin(0.08)) c.blockSize = -1; // automatic
    if (tbx::forcedBlockSize()) c.blockSize = tbx::forcedBlockSize();
    c.oneGroupPerParent = r.coin(0.5);
    c.upper = E::Space::IsPeriodic ? 1 : (r.coin(0.7) ? 2 : long(r.below(2)));
    c.rebuildFirst = r.coin(0.12);
    return c;
}

//================================================================================================ C01
template <class E> void c01Config(const Conf<E>& c, Result& res, bool doSet, bool doPoly, bool cells = true) {
    bool nontrivial = false; uint64_t occ = 0;
    if (doSet && c.parts.size() <= size_t(vp::PSET_N)) runSetC01<E>(c, res, nontrivial, occ, cells);
    if (doPoly) runPolyC01<E>(c, res);
    if (nontrivial) res.nontrivial = true;
    if (res.sig.empty()) res.sig = confSig<E>(c, occ);
    res.ev("configurations");
}

// Enumerated slice: every non-empty occupancy pattern of the leaves of a (D,H) tree.
template <class E> Segment c01EnumSegment(long H) {
    constexpr int D = E::Cfg::Dim;
    using Real = typename E::Cfg::RealType;
    long k = 1; for (int d = 0; d < D; ++d) k *= (1L << (H - 1));
    const uint64_t nbPatterns = (k >= 63) ? 0 : ((1ULL << k) - 1);
    Segment s;
    s.name = "c01-enum-D" + vh::str(D) + "H" + vh::str(H);
    // thorough: every pattern with one particle per leaf; the multi-particle pass on every pattern of the small slices and every 8th of the 16-leaf ones
    const uint64_t multiStride = nbPatterns > 1200 ? 8 : 1;
    s.count = [=](bool th) { return long(th ? nbPatterns + (nbPatterns + multiStride - 1) / multiStride : 2 * std::min<uint64_t>(nbPatterns, 1200)); };
    s.run = [=](long kk, uint64_t seed, bool th, Result& res) {
        const bool sampled = !th && nbPatterns > 1200;
        int pass; uint64_t pi;
        if (th) { if (uint64_t(kk) < nbPatterns) { pass = 0; pi = uint64_t(kk); } else { pass = 1; pi = (uint64_t(kk) - nbPatterns) * multiStride; } }
        else { pass = int(kk & 1); pi = uint64_t(kk >> 1); }
        const uint64_t mask = sampled ? (vh::mix(seed, pi) % nbPatterns) + 1 : pi + 1;
        vh::Rng r(vh::mix(seed ^ 0xE17, uint64_t(kk)));
        Conf<E> c; c.seed = vh::mix(seed, kk);
        c.geo = tbx::genGeo<Real, D>(r, H, false, pass == 0 ? 0 : -1);
        const typename E::Cfg cfg(H, c.geo.width, c.geo.center);
        const auto leaves = tbx::leavesFromMask<D>(H, mask);
        const auto pos = tbx::patternPositions<Real, D>(r, cfg, leaves, 1, pass == 0 ? 1 : 3);
        c.parts = tbx::withExtras<Real, D, E::NV>(pos, c.seed);
        c.dist = "pattern-mask-" + vh::str(mask) + (pass ? "-multi" : "-single");
        res.desc = "occupancy pattern 0x" + [&] { std::ostringstream o; o << std::hex << mask; return o.str(); }() + " of the " + vh::str(k) + " leaves, " + vh::str(c.parts.size()) + " particles, every block size x both grouping modes; " ;
        const long nl = long(leaves.size());
        std::vector<long> bss;
        if (th && k <= 8) for (long b = 1; b <= k + 1; ++b) bss.push_back(b);
        else if (th) { for (long b : {1L, 2L, 3L, 4L, 5L, 7L, 8L, 11L, nl, k, k + 1}) if (std::find(bss.begin(), bss.end(), b) == bss.end() && b >= 1) bss.push_back(b); }
        else { for (long b : {1L, 2L, 3L, nl, k + 1}) if (std::find(bss.begin(), bss.end(), b) == bss.end() && b >= 1) bss.push_back(b); }
        bool first = true;
        for (long bs : bss) for (int ogp = 0; ogp < 2; ++ogp) {
            c.blockSize = bs; c.oneGroupPerParent = ogp; c.upper = 2;
            if (first) { res.desc += confDesc<E>(c); }
            c01Config<E>(c, res, true, first || bs == 1 || bs == k + 1, first);
            first = false;
        }
        if (c.parts.size() <= size_t(vp::PSET_N)) { // upper levels 0 and 1 must give the same result when not periodic
            c.blockSize = bss[r.below(bss.size())]; c.upper = long(r.below(2));
            c01Config<E>(c, res, true, false, true);
        }
    };
    return s;
}

template <class E> Segment c01RandomSegment(long nQuick, long nThorough) {
    Segment s;
    s.name = std::string("c01-random-D") + vh::str(E::Cfg::Dim);
    s.count = [=](bool th) { return th ? nThorough : nQuick; };
    s.run = [=](long kk, uint64_t seed, bool, Result& res) {
        vh::Rng r(vh::mix(seed ^ 0xC01, uint64_t(kk) * 4 + E::Cfg::Dim));
        auto c = randomConf<E>(r, vh::mix(seed, kk), vp::PSET_N);
        res.desc = confDesc<E>(c);
        c01Config<E>(c, res, true, true);
    };
    return s;
}

template <class E> Segment c01LargeSegment(long nQuick, long nThorough) {
    constexpr int D = E::Cfg::Dim;
    using Real = typename E::Cfg::RealType;
    Segment s;
    s.name = std::string("c01-large-D") + vh::str(D);
    s.count = [=](bool th) { return th ? nThorough : nQuick; };
    s.run = [=](long kk, uint64_t seed, bool th, Result& res) {
        vh::Rng r(vh::mix(seed ^ 0x1A46E, uint64_t(kk) * 4 + D));
        Conf<E> c; c.seed = vh::mix(seed, kk);
        const long H = maxHeightFor(D) + (th ? long(r.below(2)) : 0) + (D == 1 ? 2 : 0);
        c.geo = tbx::genGeo<Real, D>(r, H, false);
        const typename E::Cfg cfg(H, c.geo.width, c.geo.center);
        const int dist = int(r.below(3));
        c.dist = tbx::distName(dist);
        const long N = th ? r.range(3000, 20000) : r.range(1000, 4000);
        c.parts = tbx::withExtras<Real, D, E::NV>(tbx::genPositions<Real, D>(r, cfg, dist, N), c.seed);
        const auto bss = tbx::blockSizesFor(N, false);
        c.blockSize = bss[r.below(bss.size())]; c.oneGroupPerParent = r.coin(0.5); c.upper = 2;
        res.desc = confDesc<E>(c);
        c01Config<E>(c, res, false, true);
        res.nontrivial = true;
        res.sig = confSig<E>(c, vh::mix(c.seed, 1));
    };
    return s;
}

//================================================================================================ C02
template <class E> void c02Config(const Conf<E>& c, Result& res, const char* tag, bool hilbert = false) {
    constexpr int D = E::Cfg::Dim;
    CheckedRun<E> cr;
    cr.rc.hilbert = hilbert;
    cr.build(c, res);
    if (!cr.ok) return;
    const uint64_t h0 = tbx::hashSymbolic(*cr.pr.tree);
    cr.algo->execute(*cr.pr.tree);
    const uint64_t h1 = tbx::hashSymbolic(*cr.pr.tree);
    if (h0 != h1) res.fail("c06:symbolic-changed-by-execute", "hash of symbolic buffers changed during execute()");
    drainRec<D>(cr.rc, res, std::string(tag) + ":");
    if (!cr.pr.cfg) return;
    if (!hilbert) {
        cr.pr.reference(false, res);
        cr.pr.compare(res, std::string(tag) + ":poly-direct-sum");
        compareElems<D>(cr.rc.elems, vm::expectedElems<D>(cr.cells, E::Space::IsPeriodic, c.upper), res, std::string(tag) + ":events");
    }
    res.nontrivial = res.nontrivial || (cr.rc.calls[vm::OP_M2L] + cr.rc.calls[vm::OP_P2P] > 0);
    if (res.sig.empty()) res.sig = confSig<E>(c, occHash<D>(cr.cells.level[c.geo.H - 1]));
    res.ev("configurations");
}

template <class E> Segment c02RandomSegment(long nQuick, long nThorough, bool hilbert = false) {
    Segment s;
    s.name = std::string("c02-seq-") + E::orderingName() + "-D" + vh::str(E::Cfg::Dim);
    s.count = [=](bool th) { return th ? nThorough : nQuick; };
    s.run = [=](long kk, uint64_t seed, bool, Result& res) {
        vh::Rng r(vh::mix(seed ^ 0xC02, uint64_t(kk) * 4 + E::Cfg::Dim));
        auto c = randomConf<E>(r, vh::mix(seed, kk), 400, false, E::Space::IsPeriodic ? 2 : 1);
        res.desc = confDesc<E>(c) + " executor=sequential";
        c02Config<E>(c, res, "c02", hilbert);
    };
    return s;
}

//================================================================================================ C08
// one input, many groupings: identical multiset of elementary interactions (and equal to the model), identical expansions and results
template <class E> Segment c08Segment(long nQuick, long nThorough) {
    constexpr int D = E::Cfg::Dim;
    Segment s;
    s.name = std::string("c08-seq-") + E::orderingName() + "-D" + vh::str(D);
    s.count = [=](bool th) { return th ? nThorough : nQuick; };
    s.run = [=](long kk, uint64_t seed, bool th, Result& res) {
        vh::Rng r(vh::mix(seed ^ 0xC08, uint64_t(kk) * 4 + D));
        auto c = randomConf<E>(r, vh::mix(seed, kk), th ? 600 : 250, false, E::Space::IsPeriodic ? 2 : 1);
        c.upper = E::Space::IsPeriodic ? 1 : 2;
        const long N = long(c.parts.size());
        std::vector<long> bss = tbx::blockSizesFor(N, N <= 12);
        bss.push_back(-1); bss.push_back(-2); // automatic; automatic through TBFMM_BLOCK_SIZE
        res.desc = confDesc<E>(c) + " groupings=" + vh::str(bss.size() * 2);
        std::vector<vm::Elem> refElems; std::vector<uint64_t> refRhs;
        std::map<std::pair<long, std::vector<long>>, std::pair<typename E::PV, typename E::PV>> refCells;
        bool haveRef = false; long groupings = 0;
        std::string refName;
        for (long bs : bss) for (int ogp = 0; ogp < 2; ++ogp) {
            Conf<E> cc = c; cc.oneGroupPerParent = ogp; cc.blockSize = bs;
            if (bs == -2) { const long envBs = tbx::envBlockSize(vh::mix(seed, kk)); setenv("TBFMM_BLOCK_SIZE", vh::str(envBs).c_str(), 1); cc.blockSize = -1; }
            CheckedRun<E> cr; cr.build(cc, res);
            if (bs == -2) {
                const long envBs = tbx::envBlockSize(vh::mix(seed, kk));
                if (cr.pr.tree->getNbElementsPerGroup() != envBs) res.fail("c08:env-block-size-ignored", "TBFMM_BLOCK_SIZE=" + vh::str(envBs) + " but tree uses " + vh::str(cr.pr.tree->getNbElementsPerGroup()));
                unsetenv("TBFMM_BLOCK_SIZE");
            }
            if (!cr.ok) return;
            cr.algo->execute(*cr.pr.tree);
            drainRec<D>(cr.rc, res, "c08:");
            std::sort(cr.rc.elems.begin(), cr.rc.elems.end());
            auto rhs = cr.pr.rhsByIndex();
            std::map<std::pair<long, std::vector<long>>, std::pair<typename E::PV, typename E::PV>> cellsNow;
            cr.pr.tree->applyToAllCells([&](long L, auto& hdr, auto& m, auto& l) { cellsNow[{L, std::vector<long>(hdr.boxCoord.begin(), hdr.boxCoord.end())}] = {m->get(), l->get()}; });
            const std::string name = "bs=" + vh::str(bs) + ",ogp=" + vh::str(ogp);
            if (!haveRef) {
                haveRef = true; refElems = cr.rc.elems; refRhs = rhs; refCells = cellsNow; refName = name;
                compareElems<D>(refElems, vm::expectedElems<D>(cr.cells, E::Space::IsPeriodic, cc.upper), res, "c08:events-vs-model");
                cr.pr.reference(false, res); cr.pr.compare(res, "c08:poly-direct-sum");
                res.nontrivial = cr.rc.calls[vm::OP_M2L] + cr.rc.calls[vm::OP_P2P] > 0 && cr.cells.level[c.geo.H - 1].size() >= 2;
                res.sig = confSig<E>(c, occHash<D>(cr.cells.level[c.geo.H - 1]));
            } else {
                if (cr.rc.elems != refElems) compareElems<D>(cr.rc.elems, refElems, res, "c08:events-differ");
                if (rhs != refRhs) res.fail("c08:results-differ", name + " vs " + refName);
                if (cellsNow != refCells) res.fail("c08:expansions-differ", name + " vs " + refName);
            }
            ++groupings;
        }
        res.ev("groupings", groupings);
    };
    return s;
}

//================================================================================================ C12
// ordered partitions of the six flags into stages that respect P2M<M2M<M2L<L2L<L2P (P2P anywhere)
inline const std::vector<std::vector<int>>& flagHistories() {
    static std::vector<std::vector<int>> all;
    if (!all.empty()) return all;
    using namespace TbfAlgorithmUtils;
    const int chain[5] = {TbfP2M, TbfM2M, TbfM2L, TbfL2L, TbfL2P};
    // cut the chain into consecutive stages (2^4 ways), then place P2P into any stage or into a stage of its own at any position
    for (int cuts = 0; cuts < 16; ++cuts) {
        std::vector<int> stages; int cur = 0;
        for (int i = 0; i < 5; ++i) { cur |= chain[i]; if (i == 4 || (cuts >> i) & 1) { stages.push_back(cur); cur = 0; } }
        for (size_t p = 0; p < stages.size(); ++p) { auto s2 = stages; s2[p] |= TbfP2P; all.push_back(s2); }
        for (size_t p = 0; p <= stages.size(); ++p) { auto s2 = stages; s2.insert(s2.begin() + long(p), int(TbfP2P)); all.push_back(s2); }
    }
    // the documented split
    all.push_back({TbfBottomToTopStages, TbfTransferStages, TbfTopToBottomStages});
    return all;
}

// histories written with the named composite flags the README documents (lines "TbfNearField = TbfP2P, TbfFarField = ..."):
// each is a partition of the full algorithm in dependency order, so each must end like one full run
inline const std::vector<std::vector<int>>& namedHistories() {
    using namespace TbfAlgorithmUtils;
    static const std::vector<std::vector<int>> named = {
        {TbfBottomToTopStages, TbfTransferStages, TbfTopToBottomStages},
        {TbfFarField, TbfNearField}, {TbfNearField, TbfFarField}, {TbfNearAndFarFields},
        {TbfBottomToTopStages, TbfNearField, TbfM2L, TbfTopToBottomStages}};
    return named;
}
// history number q of a sample of nh: the named ones first, random ordered partitions after
template <class R> inline const std::vector<int>& pickHistory(size_t q, R& r) {
    const auto& nm = namedHistories(); const auto& hs = flagHistories();
    return q < nm.size() ? nm[q] : hs[r.below(hs.size())];
}
// the named composite flags are, as sets of operators, what the README says they are (observed through which operators a run
// with that flag alone calls: see the single-flag family; here the cheap half: disjointness / cover of the documented partitions)
inline void checkNamedFlagAlgebra(vh::Result& res) {
    using namespace TbfAlgorithmUtils;
    const int all = TbfP2P | TbfP2M | TbfM2M | TbfM2L | TbfL2L | TbfL2P;
    auto part = [&](std::initializer_list<int> st, const char* what) {
        int seen = 0; for (int f : st) { if (seen & f) res.fail("c12:named-flags-overlap", std::string(what) + ": stage " + vh::str(f) + " repeats operators of an earlier stage (" + vh::str(seen & f) + ")"); seen |= f; }
        if (seen != all) res.fail("c12:named-flags-do-not-cover", std::string(what) + ": union " + vh::str(seen));
    };
    part({TbfFarField, TbfNearField}, "TbfFarField;TbfNearField");
    part({TbfBottomToTopStages, TbfTransferStages, TbfTopToBottomStages}, "TbfBottomToTopStages;TbfTransferStages;TbfTopToBottomStages");
    part({TbfNearAndFarFields}, "TbfNearAndFarFields");
    res.ev("named-flag-partitions-checked", 3);
}

template <class Tree, class PV> struct TreeBytes {
    std::map<std::pair<long, std::vector<long>>, std::pair<PV, PV>> cells;
    std::vector<uint64_t> rhs;
    uint64_t symbolic = 0;
    bool operator==(const TreeBytes& o) const { return cells == o.cells && rhs == o.rhs && symbolic == o.symbolic; }
};
template <class E, class Tree> TreeBytes<Tree, typename E::PV> snapshotTree(Tree& tree, long N) {
    TreeBytes<Tree, typename E::PV> s;
    tree.applyToAllCells([&](long L, auto& hdr, auto& m, auto& l) { s.cells[{L, std::vector<long>(hdr.boxCoord.begin(), hdr.boxCoord.end())}] = {m->get(), l->get()}; });
    s.rhs.assign(N, 0);
    tree.applyToAllLeaves([&](auto& hdr, const long* idx, auto&&, auto&& rhs) { for (long p = 0; p < hdr.nbParticles; ++p) s.rhs[idx[p]] = rhs[0][p]; });
    s.symbolic = tbx::hashSymbolic(tree);
    return s;
}

template <class E> Segment c12Segment(long nQuick, long nThorough) {
    constexpr int D = E::Cfg::Dim;
    using Real = typename E::Cfg::RealType;
    Segment s;
    s.name = std::string("c12-seq-") + E::orderingName() + "-D" + vh::str(D);
    s.count = [=](bool th) { return th ? nThorough : nQuick; };
    s.run = [=](long kk, uint64_t seed, bool th, Result& res) {
        using namespace TbfAlgorithmUtils;
        vh::Rng r(vh::mix(seed ^ 0xC12, uint64_t(kk) * 4 + D));
        auto c = randomConf<E>(r, vh::mix(seed, kk), 200, false, E::Space::IsPeriodic ? 2 : 1);
        const long N = long(c.parts.size());
        const long H = c.geo.H;
        const int sub = int(kk % 3);
        res.desc = confDesc<E>(c);
        if (sub == 0) {
            // (a) every single flag alone on a fresh tree: only that operator is called, only its output kind is written
            res.desc += " history=single-flags";
            const int flags[6] = {TbfP2P, TbfP2M, TbfM2M, TbfM2L, TbfL2L, TbfL2P};
            for (int f : flags) {
                CheckedRun<E> cr; cr.build(c, res); if (!cr.ok) return;
                // give the inputs of the operator non-trivial content first (silently)
                cr.rc.record = false;
                for (int g : {TbfP2M, TbfM2M, TbfM2L, TbfL2L}) { if (g == f) break; if (f == TbfP2P) break; cr.algo->execute(*cr.pr.tree, g); }
                cr.rc.record = true; cr.rc.elems.clear(); cr.rc.calls.fill(0);
                const auto before = snapshotTree<E>(*cr.pr.tree, N);
                cr.algo->execute(*cr.pr.tree, f);
                const auto after = snapshotTree<E>(*cr.pr.tree, N);
                drainRec<D>(cr.rc, res, "c12:");
                const unsigned allowed = f == TbfP2P ? ((1u << vm::OP_P2P) | (1u << vm::OP_P2PINNER)) : f == TbfP2M ? (1u << vm::OP_P2M) : f == TbfM2M ? (1u << vm::OP_M2M)
                                       : f == TbfM2L ? (1u << vm::OP_M2L) : f == TbfL2L ? (1u << vm::OP_L2L) : (1u << vm::OP_L2P);
                for (int op = 0; op < vm::OP_NB; ++op) if (cr.rc.calls[op] && !(allowed & (1u << op))) res.fail(std::string("c12:flag-triggers-other-operator:") + vm::opName(op), "flag " + vh::str(f) + " called " + vm::opName(op));
                compareElems<D>(cr.rc.elems, vm::expectedElems<D>(cr.cells, E::Space::IsPeriodic, c.upper, allowed), res, "c12:flag-events");
                bool mChanged = false, lChanged = false;
                for (auto& kv : before.cells) { const auto& a = after.cells.at(kv.first); if (a.first != kv.second.first) mChanged = true; if (a.second != kv.second.second) lChanged = true; }
                const bool rChanged = before.rhs != after.rhs;
                const bool wM = (f == TbfP2M || f == TbfM2M), wL = (f == TbfM2L || f == TbfL2L), wR = (f == TbfL2P || f == TbfP2P);
                if (mChanged && !wM) res.fail("c12:writes-foreign-output:multipole", "flag " + vh::str(f) + " changed a multipole");
                if (lChanged && !wL) res.fail("c12:writes-foreign-output:local", "flag " + vh::str(f) + " changed a local");
                if (rChanged && !wR) res.fail("c12:writes-foreign-output:rhs", "flag " + vh::str(f) + " changed particle results");
                if (before.symbolic != after.symbolic) res.fail("c12:writes-foreign-output:symbolic", "flag " + vh::str(f) + " changed symbolic data");
                res.ev("single-flag-runs");
            }
            // the named composite flags alone: exactly the operators the README lists for them, on the same kind of prepared tree
            {
                const unsigned oP2P = (1u << vm::OP_P2P) | (1u << vm::OP_P2PINNER), oP2M = 1u << vm::OP_P2M, oM2M = 1u << vm::OP_M2M, oM2L = 1u << vm::OP_M2L, oL2L = 1u << vm::OP_L2L, oL2P = 1u << vm::OP_L2P;
                struct Named { int flag; unsigned allowed; int prepare; const char* name; };
                const Named named[] = {{TbfNearField, oP2P, 0, "TbfNearField"}, {TbfFarField, oP2M | oM2M | oM2L | oL2L | oL2P, 0, "TbfFarField"},
                                       {TbfBottomToTopStages, oP2M | oM2M, 0, "TbfBottomToTopStages"}, {TbfTransferStages, oM2L | oP2P, TbfP2M | TbfM2M, "TbfTransferStages"},
                                       {TbfTopToBottomStages, oL2L | oL2P, TbfP2M | TbfM2M | TbfM2L, "TbfTopToBottomStages"}, {TbfNearAndFarFields, oP2P | oP2M | oM2M | oM2L | oL2L | oL2P, 0, "TbfNearAndFarFields"}};
                for (const auto& nf : named) {
                    CheckedRun<E> cr; cr.build(c, res); if (!cr.ok) return;
                    cr.rc.record = false;
                    for (int g : {TbfP2M, TbfM2M, TbfM2L}) if (nf.prepare & g) cr.algo->execute(*cr.pr.tree, g);
                    cr.rc.record = true; cr.rc.elems.clear(); cr.rc.calls.fill(0);
                    cr.algo->execute(*cr.pr.tree, nf.flag);
                    drainRec<D>(cr.rc, res, "c12:");
                    for (int op = 0; op < vm::OP_NB; ++op) if (cr.rc.calls[op] && !(nf.allowed & (1u << op))) res.fail(std::string("c12:flag-triggers-other-operator:") + vm::opName(op), std::string("flag ") + nf.name + " called " + vm::opName(op));
                    compareElems<D>(cr.rc.elems, vm::expectedElems<D>(cr.cells, E::Space::IsPeriodic, c.upper, nf.allowed), res, std::string("c12:named-flag-events:") + nf.name);
                    res.ev("named-flag-runs");
                }
            }
            res.nontrivial = N >= 2; res.sig = "single:" + confSig<E>(c, vh::mix(c.seed, 2));
        } else if (sub == 1) {
            // (b) staged histories end bit-identical to one full run
            CheckedRun<E> full; full.build(c, res); if (!full.ok) return;
            full.algo->execute(*full.pr.tree);
            const auto ref = snapshotTree<E>(*full.pr.tree, N);
            full.pr.reference(false, res); full.pr.compare(res, "c12:poly-direct-sum");
            const auto& hs = flagHistories();
            const size_t nh = th ? hs.size() + namedHistories().size() : 24;
            res.desc += " history=staged x" + vh::str(nh);
            checkNamedFlagAlgebra(res);
            for (size_t q = 0; q < nh; ++q) {
                const auto& h = th ? (q < hs.size() ? hs[q] : namedHistories()[q - hs.size()]) : pickHistory(q, r);
                PolyRun<E, typename E::PolyKernel> pr; pr.build(c);
                TbfAlgorithm<Real, typename E::PolyKernel, typename E::Space> algo(*pr.cfg, c.upper);
                for (int st : h) algo.execute(*pr.tree, st);
                const auto got = snapshotTree<E>(*pr.tree, N);
                if (!(got == ref)) { std::string hs2; for (int st : h) hs2 += vh::str(st) + " "; res.fail("c12:staged-differs-from-full", "stages " + hs2); }
                res.ev("staged-histories");
            }
            res.nontrivial = full.rc.calls[vm::OP_M2L] + full.rc.calls[vm::OP_P2P] > 0; res.sig = "staged:" + confSig<E>(c, vh::mix(c.seed, 3));
        } else {
            // (c) every upper working level 0..H: nothing above it, final state equals the model with that level
            res.desc += " history=upper-levels 0.." + vh::str(H);
            for (long up = 0; up <= H; ++up) {
                Conf<E> cc = c; cc.upper = up;
                CheckedRun<E> cr; cr.build(cc, res); if (!cr.ok) return;
                cr.algo->execute(*cr.pr.tree);
                drainRec<D>(cr.rc, res, "c12:");
                for (const auto& e : cr.rc.elems) if ((e.op == vm::OP_M2M || e.op == vm::OP_M2L || e.op == vm::OP_L2L) && e.level < up) { res.fail(std::string("c12:operator-above-upper-level:") + vm::opName(e.op), elemStr<D>(e) + " upper=" + vh::str(up)); break; }
                compareElems<D>(cr.rc.elems, vm::expectedElems<D>(cr.cells, E::Space::IsPeriodic, up), res, "c12:upper-events");
                if (N <= vp::PSET_N) { bool nt; uint64_t occ; runSetC01<E>(cc, res, nt, occ, true); }
                res.ev("upper-level-runs");
            }
            res.nontrivial = H >= 3; res.sig = "upper:" + confSig<E>(c, vh::mix(c.seed, 4));
        }
    };
    return s;
}

//================================================================================================ C13 with P-poly
// build -> execute -> move in place -> rebuild -> execute: rhs == rhs_before + exact direct sum at the new positions
template <class E> Segment c13PolySegment(long nQ, long nT) {
    constexpr int D = E::Cfg::Dim;
    using Real = typename E::Cfg::RealType;
    Segment s; s.name = std::string("c13-poly-") + E::orderingName() + "-D" + vh::str(D);
    s.count = [=](bool th) { return th ? nT : nQ; };
    s.run = [=](long kk, uint64_t seed, bool, Result& res) {
        vh::Rng r(vh::mix(seed ^ 0xC13B, uint64_t(kk) * 4 + D));
        auto c = randomConf<E>(r, vh::mix(seed, kk), 250, false, E::Space::IsPeriodic ? 2 : 1);
        const long N = long(c.parts.size());
        const int cycles = int(r.range(1, 3));
        res.desc = confDesc<E>(c) + " move/rebuild/execute cycles=" + vh::str(cycles) + " kernel=P-poly";
        PolyRun<E, typename E::PolyKernel> pr; pr.build(c);
        auto& tree = *pr.tree;
        { TbfAlgorithm<Real, typename E::PolyKernel, typename E::Space> a(*pr.cfg, c.upper); a.execute(tree); }
        pr.reference(false, res); pr.compare(res, "c13:poly-direct-sum-before");
        std::vector<uint64_t> acc = pr.expected;
        auto current = c.parts; long moved = 0;
        for (int cyc = 0; cyc < cycles; ++cyc) {
            tbx::DistState st; for (auto& x : st.c) x = r.unit(); for (auto& x : st.leaf) x = long(r.below(1u << 20));
            const int dist = int(r.below(tbx::D_NB)); const double frac = r.coin(0.3) ? 1.0 : 0.1 + 0.8 * r.unit();
            std::vector<std::array<Real, D>> prev;
            tree.applyToAllLeaves([&](auto& hdr, const long* idx, auto&& data, auto&&) {
                for (long p = 0; p < hdr.nbParticles; ++p) {
                    if (!r.coin(frac)) continue;
                    for (int tries = 0; tries < 50; ++tries) {
                        auto pos = tbx::candidate<Real, D>(r, *pr.cfg, tries < 40 ? dist : int(tbx::D_UNIFORM), prev, st);
                        if (!tbx::validPos<Real, D>(*pr.cfg, pos)) continue;
                        for (int d = 0; d < D; ++d) { data[d][p] = pos[d]; current[idx[p]][d] = pos[d]; }
                        ++moved; break;
                    }
                }
            });
            tree.rebuild();
            // new lattice embedding for the moved particles (weights unchanged: same seed)
            setupPolyCtx<E>(pr.ctx, *pr.cfg, current, current, c.seed, true);
            { TbfAlgorithm<Real, typename E::PolyKernel, typename E::Space> a(*pr.cfg, c.upper); a.execute(tree); }
            pr.reference(false, res);
            pr.compare(res, "c13:poly-after-rebuild", 1, &acc);
            for (long i = 0; i < N; ++i) acc[i] += pr.expected[i];
            // data bit-identical to the edited array
            tree.applyToAllLeaves([&](auto& hdr, const long* idx, auto&& data, auto&&) { for (long p = 0; p < hdr.nbParticles; ++p) for (int v = 0; v < E::NV; ++v) if (std::memcmp(&data[v][p], &current[idx[p]][v], sizeof(Real)) != 0) { res.fail("c13:data-not-bit-identical", "particle " + vh::str(idx[p]) + " value " + vh::str(v)); return; } });
            res.ev("rebuild-cycles");
        }
        res.ev("particles-moved", moved); res.ev("leaf-changes", moved);
        res.sig = "poly:" + confSig<E>(c, vh::mix(c.seed, 13)) + ",cyc" + vh::str(cycles); res.nontrivial = moved > 0 && N >= 2;
    };
    return s;
}

} // namespace fmm
#endif
