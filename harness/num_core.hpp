// Engine h_num: numerical kernels (rotation, uniform) and the direct P2P routines against long double references.
#ifndef VH_NUM_CORE_HPP
#define VH_NUM_CORE_HPP

#include "tbx.hpp"
#include "rt/sched.hpp"
#include "algorithms/sequential/tbfalgorithm.hpp"
#include "algorithms/sequential/tbfalgorithmtsm.hpp"
#include "algorithms/openmp/tbfopenmpalgorithm.hpp"
#include "algorithms/openmp/tbfopenmpalgorithmtsm.hpp"
#include "algorithms/periodic/tbfalgorithmperiodictoptree.hpp"
#include "kernels/P2P/FP2PR.hpp"
#include <complex>
#include <fstream>

namespace num {

using vh::Result;
typedef long double LD;

struct Segment { std::string name; std::function<long(bool)> count; std::function<void(long, uint64_t, bool, Result&)> run; };

//---------------------------------------------------------------- bounds file: flat {"key": number, ...}
inline std::map<std::string, double>& bounds() {
    static std::map<std::string, double> b; static bool loaded = false;
    if (!loaded) {
        loaded = true;
        const char* f = getenv("VH_BOUNDS");
        std::ifstream in(f ? f : "/verif/bounds.json");
        std::string s((std::istreambuf_iterator<char>(in)), std::istreambuf_iterator<char>());
        size_t p = 0;
        while ((p = s.find('"', p)) != std::string::npos) {
            const size_t q = s.find('"', p + 1); if (q == std::string::npos) break;
            const std::string key = s.substr(p + 1, q - p - 1);
            size_t c = s.find(':', q); if (c == std::string::npos) break;
            char* end = nullptr; const double v = strtod(s.c_str() + c + 1, &end);
            if (end != s.c_str() + c + 1) b[key] = v;
            p = q + 1;
        }
    }
    return b;
}
inline bool calibrating() { return getenv("VH_CALIBRATE") != nullptr; }
inline double boundOf(const std::string& key, Result& res) {
    auto it = bounds().find(key);
    if (it == bounds().end()) { if (!calibrating()) res.fail("harness:missing-bound", key); return 1e300; }
    return calibrating() ? 1e300 : it->second;
}
inline void recordMax(Result& res, const std::string& name, double v) {
    if (!(v == v) || v > 9e18 / 1e15) v = 9000.0;
    const long long s = (long long)std::llround(v * 1e15);
    auto& e = res.events["max-" + name + "-e15"]; if (s > e) e = s;
}

//---------------------------------------------------------------- charged particle sets
template <class Real> using Parts4 = std::vector<std::array<Real, 4>>;

// axisMargin > 0: reject points closer than axisMargin*leafWidth to the vertical axis through their leaf centre
// (the spherical-harmonics kernels are singular there: known finding of C04)
template <class Real> Parts4<Real> genCharged(vh::Rng& r, const tbx::Config<Real, 3>& cfg, int dist, long N, int sign, Real minSep, double axisMargin = 0) {
    // distinct positions (1/r undefined otherwise); dist as in tbx plus cell centres / axes
    Parts4<Real> out;
    const long nl = 1L << (cfg.getTreeHeight() - 1);
    tbx::DistState st; for (auto& x : st.c) x = r.unit(); for (auto& x : st.leaf) x = long(r.below(1u << 20));
    std::vector<std::array<Real, 3>> prev;
    long guard = 0;
    while (long(out.size()) < N && ++guard < 200 * N + 1000) {
        std::array<Real, 3> p;
        if (dist == 100) { for (int d = 0; d < 3; ++d) p[d] = cfg.getBoxCorner()[d] + Real((double(r.below(uint64_t(nl))) + 0.5) / double(nl)) * cfg.getBoxWidths()[d]; } // cell centres
        else if (dist == 101) { const int ax = int(r.below(3)); for (int d = 0; d < 3; ++d) p[d] = cfg.getBoxCorner()[d] + Real(d == ax ? r.unit() : (double(r.below(uint64_t(nl))) + 0.5) / double(nl)) * cfg.getBoxWidths()[d]; } // on cell axes
        else p = tbx::candidate<Real, 3>(r, cfg, dist, prev, st);
        if (!tbx::validPos<Real, 3>(cfg, p)) continue;
        bool ok = true;
        if (axisMargin > 0) {
            LD rel[2];
            for (int d = 0; d < 2; ++d) { const LD lw = (LD)cfg.getBoxWidths()[d] / nl; LD u = ((LD)p[d] - (LD)cfg.getBoxCorner()[d]) / lw; LD c = std::floor(u); if (c >= nl) c = nl - 1; rel[d] = (u - (c + 0.5L)); }
            if (std::sqrt(rel[0] * rel[0] + rel[1] * rel[1]) < axisMargin) continue;
        }
        for (const auto& q : out) { const Real dx = q[0] - p[0], dy = q[1] - p[1], dz = q[2] - p[2]; if (dx * dx + dy * dy + dz * dz < minSep * minSep) { ok = false; break; } }
        if (!ok) continue;
        const Real q = Real((sign == 0 ? 1.0 : sign == 1 ? -1.0 : (r.coin() ? 1.0 : -1.0)) * (0.1 + r.unit()));
        out.push_back({p[0], p[1], p[2], q}); prev.push_back(p);
        if (sign == 3 && long(out.size()) < N) {
            // neutral pairs: a partner of exactly opposite charge inside the same leaf, so that many cells carry zero net charge
            for (int tries = 0; tries < 8; ++tries) {
                std::array<Real, 3> p2; LD rel2[2] = {0, 0};
                for (int d = 0; d < 3; ++d) {
                    const LD lw = (LD)cfg.getBoxWidths()[d] / nl; LD u = ((LD)p[d] - (LD)cfg.getBoxCorner()[d]) / lw; LD c = std::floor(u); if (c >= nl) c = nl - 1; if (c < 0) c = 0;
                    const LD f = 0.08L + 0.84L * (LD)r.unit();
                    p2[d] = Real((LD)cfg.getBoxCorner()[d] + (c + f) * lw); if (d < 2) rel2[d] = f - 0.5L;
                }
                if (!tbx::validPos<Real, 3>(cfg, p2)) continue;
                if (axisMargin > 0 && std::sqrt(rel2[0] * rel2[0] + rel2[1] * rel2[1]) < axisMargin) continue;
                bool ok2 = true;
                for (const auto& q2 : out) { const Real dx = q2[0] - p2[0], dy = q2[1] - p2[1], dz = q2[2] - p2[2]; if (dx * dx + dy * dy + dz * dz < minSep * minSep) { ok2 = false; break; } }
                if (!ok2) continue;
                out.push_back({p2[0], p2[1], p2[2], Real(-q)}); prev.push_back(p2); break;
            }
        }
    }
    return out;
}

struct Ref { std::vector<LD> pot, fx, fy, fz, sp, sf; };

// long double reference over targets `which` (indices into tgt); sources src; images in [lo,hi]^3 of width w; sameSet excludes (i==j, s==0)
template <class Real> Ref reference(const Parts4<Real>& src, const Parts4<Real>& tgt, const std::vector<long>& which, bool sameSet, long lo, long hi, const std::array<Real, 3>& w) {
    Ref R; const size_t n = which.size();
    R.pot.assign(n, 0); R.fx.assign(n, 0); R.fy.assign(n, 0); R.fz.assign(n, 0); R.sp.assign(n, 0); R.sf.assign(n, 0);
    for (size_t k = 0; k < n; ++k) {
        const long i = which[k];
        const LD xi = tgt[i][0], yi = tgt[i][1], zi = tgt[i][2], qi = tgt[i][3];
        for (size_t j = 0; j < src.size(); ++j) for (long sx = lo; sx <= hi; ++sx) for (long sy = lo; sy <= hi; ++sy) for (long sz = lo; sz <= hi; ++sz) {
            if (sameSet && long(j) == i && sx == 0 && sy == 0 && sz == 0) continue;
            const LD dx = (LD)src[j][0] + sx * (LD)w[0] - xi, dy = (LD)src[j][1] + sy * (LD)w[1] - yi, dz = (LD)src[j][2] + sz * (LD)w[2] - zi;
            const LD r2 = dx * dx + dy * dy + dz * dz, r = std::sqrt(r2), qj = src[j][3];
            R.pot[k] += qj / r; R.sp[k] += std::fabs(qj) / r;
            const LD c = qi * qj / (r2 * r);
            R.fx[k] += c * dx; R.fy[k] += c * dy; R.fz[k] += c * dz; R.sf[k] += std::fabs(qi * qj) / r2;
        }
    }
    return R;
}

struct Errs { double pot = 0, force = 0; bool finite = true; };

template <class Real, class Tree> std::vector<std::array<Real, 4>> rhsByIndex(Tree& tree, long N) {
    std::vector<std::array<Real, 4>> out(N);
    tree.applyToAllLeaves([&](auto& hdr, const long* idx, auto&&, auto&& rhs) { for (long p = 0; p < hdr.nbParticles; ++p) for (int v = 0; v < 4; ++v) out[idx[p]][v] = rhs[v][p]; });
    return out;
}

template <class Real> Errs errorsAgainst(const std::vector<std::array<Real, 4>>& got, const std::vector<long>& which, const Ref& R) {
    Errs e;
    for (size_t k = 0; k < which.size(); ++k) {
        const auto& g = got[which[k]];
        for (int v = 0; v < 4; ++v) if (!std::isfinite((double)g[v])) e.finite = false;
        if (R.sp[k] > 0) e.pot = std::max(e.pot, double(std::fabs((LD)g[3] - R.pot[k]) / R.sp[k]));
        if (R.sf[k] > 0) { const LD dx = (LD)g[0] - R.fx[k], dy = (LD)g[1] - R.fy[k], dz = (LD)g[2] - R.fz[k]; e.force = std::max(e.force, double(std::sqrt(dx * dx + dy * dy + dz * dz) / R.sf[k])); }
    }
    return e;
}

// difference between two result sets, normalised like the errors
template <class Real> Errs diffNormalised(const std::vector<std::array<Real, 4>>& a, const std::vector<std::array<Real, 4>>& b, const std::vector<long>& which, const Ref& R) {
    Errs e;
    for (size_t k = 0; k < which.size(); ++k) {
        const auto& x = a[which[k]]; const auto& y = b[which[k]];
        if (R.sp[k] > 0) e.pot = std::max(e.pot, double(std::fabs((LD)x[3] - (LD)y[3]) / R.sp[k]));
        if (R.sf[k] > 0) { const LD dx = (LD)x[0] - y[0], dy = (LD)x[1] - y[1], dz = (LD)x[2] - y[2]; e.force = std::max(e.force, double(std::sqrt(dx * dx + dy * dy + dz * dz) / R.sf[k])); }
    }
    return e;
}

inline std::vector<long> sampleTargets(vh::Rng& r, long N, long maxAll, long sample) {
    std::vector<long> w;
    if (N <= maxAll) { for (long i = 0; i < N; ++i) w.push_back(i); return w; }
    std::set<long> s; while (long(s.size()) < sample) s.insert(long(r.below(uint64_t(N))));
    return std::vector<long>(s.begin(), s.end());
}

template <class Real> const char* realName() { return sizeof(Real) == 4 ? "float" : "double"; }

} // namespace num
#endif
