// Specx executors (plain and target/source) on the mock runtime (mock/specx/Legacy/SpRuntime.hpp): thorough tier of C03/C09.
#include "sched_core.hpp"
#include "algorithms/smspecx/tbfsmspecxalgorithm.hpp"
#include "algorithms/smspecx/tbfsmspecxalgorithmtsm.hpp"
#ifndef VH_TSAN
#define VH_TSAN 0
#endif
#define VH_CAT2(a, b) a##b
#define VH_CAT(a, b) VH_CAT2(a, b)
#define VH_FN VH_CAT(vh_specx_segments_d, VH_DIM)

namespace {
template <class E> fmm::Segment specxSegment(long nQ, long nT, bool tsan) {
    fmm::Segment s; s.name = std::string("c03-specx-mock-") + E::orderingName() + "-D" + vh::str(E::Cfg::Dim);
    s.count = [=](bool th) { return th ? nT : nQ; };
    s.run = [=](long kk, uint64_t seed, bool th, vh::Result& res) {
        vh::Rng r(vh::mix(seed ^ 0x5BEC, uint64_t(kk) * 4 + E::Cfg::Dim));
        auto c = fmm::randomConf<E>(r, vh::mix(seed, kk), 250, false, r.coin(0.8) ? 3 : 1);
        if (c.blockSize > 8 && r.coin(0.6)) c.blockSize = 1 + long(r.below(6));
        const auto sc = sch::schedulesFor(r, th, tsan);
        res.desc = fmm::confDesc<E>(c) + " executor=TbfSmSpecxAlgorithm(mock runtime) schedules=" + vh::str(sc.size());
        sch::ompSingle<E, TbfSmSpecxAlgorithm>(c, sc, res, "c03-specx", tsan, true, false);
        res.sig = std::string("specx:") + fmm::confSig<E>(c, vh::mix(c.seed, 9)); res.nontrivial = res.events["tasks-executed"] > long(sc.size()) * 3;
    };
    return s;
}
template <class E> fmm::Segment specxTsmSegment(long nQ, long nT, bool tsan) {
    fmm::Segment s; s.name = std::string("c09-specx-mock-") + E::orderingName() + "-D" + vh::str(E::Cfg::Dim);
    s.count = [=](bool th) { return th ? nT : nQ; };
    s.run = [=](long kk, uint64_t seed, bool th, vh::Result& res) {
        vh::Rng r(vh::mix(seed ^ 0x5BED, uint64_t(kk) * 4 + E::Cfg::Dim));
        auto c = fmm::randomTsmConf<E>(r, vh::mix(seed, kk), 200, r.coin(0.8) ? 3 : 1);
        if (c.blockSize > 8 && r.coin(0.6)) c.blockSize = 1 + long(r.below(6));
        const auto sc = sch::schedulesFor(r, th, tsan);
        res.desc = fmm::tsmDesc<E>(c) + " executor=TbfSmSpecxAlgorithmTsm(mock runtime) schedules=" + vh::str(sc.size());
        sch::ompTsm<E, TbfSmSpecxAlgorithmTsm>(c, sc, res, "c09-specx", tsan, true, false);
        res.sig = "specx-tsm:D" + vh::str(E::Cfg::Dim) + "," + vh::str(vh::mix(c.seed, 10)); res.nontrivial = res.events["tasks-executed"] > long(sc.size()) * 3;
    };
    return s;
}
}
void VH_FN(std::map<std::string, std::vector<fmm::Segment>>& out) {
    using E = fmm::Env<double, VH_DIM, false>;
    out["c03"].push_back(specxSegment<E>(VH_TSAN ? 4 : 8, VH_TSAN ? 40 : 300, VH_TSAN));
    out["c09"].push_back(specxTsmSegment<E>(VH_TSAN ? 3 : 6, VH_TSAN ? 30 : 200, VH_TSAN));
#if !VH_TSAN
    out["c12"].push_back(sch::c12UpperSegment<E, TbfSmSpecxAlgorithm, TbfSmSpecxAlgorithmTsm>("specx", 8, 200));
#endif
}
