#include "common.hpp"
#include <map>
namespace fmm { struct Segment { std::string name; std::function<long(bool)> count; std::function<void(long, uint64_t, bool, vh::Result&)> run; }; }
#define DECL(d, p) void vh_omp_segments_d##d##_##p(std::map<std::string, std::vector<fmm::Segment>>&);
DECL(1, 0) DECL(2, 0) DECL(3, 0) DECL(3, 1)
int main(int argc, char** argv) {
    std::map<std::string, std::vector<fmm::Segment>> segs;
    vh_omp_segments_d1_0(segs); vh_omp_segments_d2_0(segs); vh_omp_segments_d3_0(segs); vh_omp_segments_d3_1(segs);
    std::vector<vh::Mode> modes;
    for (auto& kv : segs) {
        auto list = kv.second;
        vh::Mode m; m.name = kv.first;
        m.count = [list](bool th) { long n = 0; for (auto& s : list) n += s.count(th); return n; };
        m.run = [list](long k, uint64_t seed, bool th, vh::Result& r) {
            for (auto& s : list) { const long c = s.count(th); if (k < c) { s.run(k, seed, th, r); r.desc = "[" + s.name + " #" + std::to_string(k) + "] " + r.desc; return; } k -= c; }
            r.skipped = true; r.skipReason = "out of range";
        };
        modes.push_back(m);
    }
    return vh::harness_main(argc, argv, modes);
}
