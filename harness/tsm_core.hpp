// Target/source (Tsm) building blocks shared by the sequential and the task-based engines (C09).
#ifndef VH_TSM_CORE_HPP
#define VH_TSM_CORE_HPP

#include "fmm_modes.hpp"
#include "algorithms/sequential/tbfalgorithmtsm.hpp"

namespace fmm {

template <class E> struct TsmTypes {
    using Real = typename E::Cfg::RealType;
    using SetTree = TbfTreeTsm<Real, Real, E::NV, vp::SetVec, 1, vp::SetVec, vp::SetVec, typename E::Space>;
    using PolyTree = TbfTreeTsm<Real, Real, E::NV, uint64_t, 1, typename E::PV, typename E::PV, typename E::Space>;
};

template <class E> struct TsmConf {
    tbx::Geo<typename E::Cfg::RealType, E::Cfg::Dim> geo;
    typename E::Parts src, tgt;
    long blockSize = 1; bool ogp = false; long upper = 2;
    std::string distS, distT, relation; uint64_t seed = 0;
};

template <class E> std::string tsmDesc(const TsmConf<E>& c) {
    std::ostringstream os;
    os << "Dim=" << E::Cfg::Dim << " height=" << c.geo.H << " box=" << c.geo.name << " width=" << vh::astr(c.geo.width) << " Ns=" << c.src.size() << "(" << c.distS << ") Nt=" << c.tgt.size() << "(" << c.distT << ") relation=" << c.relation
       << " blockSize=" << c.blockSize << " oneGroupPerParent=" << c.ogp << " upper=" << c.upper << " ordering=" << E::orderingName();
    return os.str();
}

// independent source and target distributions: disjoint regions, overlapping, identical positions, one side in one leaf, single particle
template <class E> TsmConf<E> randomTsmConf(vh::Rng& r, uint64_t seed, long maxN, long minH = 1) {
    constexpr int D = E::Cfg::Dim;
    using Real = typename E::Cfg::RealType;
    TsmConf<E> c; c.seed = seed;
    const long H = r.range(minH, maxHeightFor(D));
    c.geo = tbx::genGeo<Real, D>(r, H, false);
    const typename E::Cfg cfg(H, c.geo.width, c.geo.center);
    const int rel = int(r.below(6));
    long Ns = 1 + long(r.below(uint64_t(maxN))), Nt = 1 + long(r.below(uint64_t(maxN)));
    int ds = int(r.below(tbx::D_NB)), dt = int(r.below(tbx::D_NB));
    std::vector<std::array<Real, D>> ps, pt;
    auto halfFilter = [&](std::vector<std::array<Real, D>>& v, bool upperHalf) { // keep points of one half of dimension 0
        const Real mid = cfg.getBoxCorner()[0] + cfg.getBoxWidths()[0] / 2;
        std::vector<std::array<Real, D>> o; for (auto& p : v) if ((p[0] >= mid) == upperHalf) o.push_back(p);
        if (o.empty()) o.push_back(v[0]);
        v.swap(o);
    };
    switch (rel) {
    case 0: c.relation = "independent"; ps = tbx::genPositions<Real, D>(r, cfg, ds, Ns); pt = tbx::genPositions<Real, D>(r, cfg, dt, Nt); break;
    case 1: c.relation = "disjoint-halves"; ps = tbx::genPositions<Real, D>(r, cfg, ds, Ns * 2); pt = tbx::genPositions<Real, D>(r, cfg, dt, Nt * 2); halfFilter(ps, false); halfFilter(pt, true); break;
    case 2: c.relation = "identical-positions"; ps = tbx::genPositions<Real, D>(r, cfg, ds, Ns); pt = ps; dt = ds; break;
    case 3: c.relation = "sources-in-one-leaf"; ds = tbx::D_ONELEAF; ps = tbx::genPositions<Real, D>(r, cfg, ds, Ns); pt = tbx::genPositions<Real, D>(r, cfg, dt, Nt); break;
    case 4: c.relation = "targets-in-one-leaf"; dt = tbx::D_ONELEAF; ps = tbx::genPositions<Real, D>(r, cfg, ds, Ns); pt = tbx::genPositions<Real, D>(r, cfg, dt, Nt); break;
    default: c.relation = r.coin() ? "single-source" : "single-target"; ps = tbx::genPositions<Real, D>(r, cfg, ds, c.relation == "single-source" ? 1 : Ns); pt = tbx::genPositions<Real, D>(r, cfg, dt, c.relation == "single-target" ? 1 : Nt); break;
    }
    c.distS = tbx::distName(ds); c.distT = tbx::distName(dt);
    c.src = tbx::withExtras<Real, D, E::NV>(ps, seed); c.tgt = tbx::withExtras<Real, D, E::NV>(pt, seed ^ 0x55);
    long nbLeavesMax = 1; for (int d = 0; d < D; ++d) nbLeavesMax *= (1L << (H - 1));
    const auto bss = tbx::blockSizesFor(std::min<long>(nbLeavesMax, long(std::max(ps.size(), pt.size()))), false);
    c.blockSize = bss[r.below(bss.size())];
    if (r.coin(0.08)) c.blockSize = -1;
    if (tbx::forcedBlockSize()) c.blockSize = tbx::forcedBlockSize();
    c.ogp = r.coin(0.5);
    c.upper = E::Space::IsPeriodic ? 1 : (r.coin(0.7) ? 2 : long(r.below(2)));
    return c;
}

template <int D, class TT> std::vector<Coord<D>> leafOfSrc(const TT& t, long N, bool* ok) {
    std::vector<Coord<D>> res(N); std::vector<int> seen(N, 0); bool good = true;
    t.applyToAllLeavesSource([&](auto& hdr, const long* idx, auto&&, auto&&) { for (long i = 0; i < hdr.nbParticles; ++i) { if (idx[i] < 0 || idx[i] >= N) { good = false; continue; } seen[idx[i]]++; for (int d = 0; d < D; ++d) res[idx[i]][d] = hdr.boxCoord[d]; } });
    for (long i = 0; i < N; ++i) if (seen[i] != 1) good = false;
    if (ok) *ok = good;
    return res;
}
template <int D, class TT> std::vector<Coord<D>> leafOfTgt(const TT& t, long N, bool* ok) {
    std::vector<Coord<D>> res(N); std::vector<int> seen(N, 0); bool good = true;
    t.applyToAllLeavesTarget([&](auto& hdr, const long* idx, auto&&, auto&&) { for (long i = 0; i < hdr.nbParticles; ++i) { if (idx[i] < 0 || idx[i] >= N) { good = false; continue; } seen[idx[i]]++; for (int d = 0; d < D; ++d) res[idx[i]][d] = hdr.boxCoord[d]; } });
    for (long i = 0; i < N; ++i) if (seen[i] != 1) good = false;
    if (ok) *ok = good;
    return res;
}

// P-set on a Tsm tree: every target must hold exactly the model's count for every source (1 when not periodic)
template <class E, class Exec> void runSetTsm(const TsmConf<E>& c, Result& res, Exec&& exec, bool& nontrivial, bool checkCells = true) {
    constexpr int D = E::Cfg::Dim;
    const long Ns = long(c.src.size()), Nt = long(c.tgt.size());
    if (Ns > long(vp::PSET_N)) { res.ev("set-probe-skipped-too-many-sources"); return; }   // the per-pair probe has PSET_N source ids
    const typename E::Cfg cfg(c.geo.H, c.geo.width, c.geo.center);
    typename TsmTypes<E>::SetTree tree(cfg, c.src, c.tgt, c.blockSize, c.ogp);
    exec(tree, cfg);
    bool ok1, ok2;
    const auto ls = leafOfSrc<D>(tree, Ns, &ok1); const auto lt = leafOfTgt<D>(tree, Nt, &ok2);
    if (!ok1 || !ok2) { res.fail("c09:index-multiset", "indices are not a permutation"); return; }
    vm::Cells<D> cs, ct; cs.build(c.geo.H, tbx::leafSet<D>(ls)); ct.build(c.geo.H, tbx::leafSet<D>(lt));
    const auto ps = vm::pairSpec<D>(cs, ct, E::Space::IsPeriodic, c.upper, true);
    nontrivial = !ps.far.empty() || !ps.near.empty();
    tree.applyToAllLeavesTarget([&](auto& hdr, const long* idx, auto&&, auto&& rhs) {
        for (long p = 0; p < hdr.nbParticles; ++p) {
            const long t = idx[p];
            for (long s = 0; s < vp::PSET_N; ++s) {
                long expect = 0; const char* how = "none";
                if (s < Ns) {
                    long f = 0, n = 0;
                    auto itf = ps.far.find({lt[t], ls[s]}); if (itf != ps.far.end()) f = itf->second;
                    auto itn = ps.near.find({lt[t], ls[s]}); if (itn != ps.near.end()) n = itn->second;
                    expect = f + n; how = (f && n) ? "both" : f ? "far" : n ? "near" : "none";
                    if (!E::Space::IsPeriodic && c.upper <= 2 && expect != 1) res.fail("c09:model-self-check", "model expects " + vh::str(expect));
                }
                const long got = rhs[0][p][s];
                if (got != expect) res.fail(std::string("c09:pair-count:") + (got < expect ? "lost" : "extra"), "target " + vh::str(t) + " leaf " + vh::astr(lt[t]) + " source " + vh::str(s) + (s < Ns ? " leaf " + vh::astr(ls[s]) : std::string(" (no such source)")) + " got " + vh::str(got) + " expected " + vh::str(expect) + " via " + how);
            }
        }
    });
    res.ev("tsm-pairs-checked", Ns * Nt);
    if (!checkCells) return;
    // cells: source multipoles = contained sources; target locals = sum over ancestors' interaction lists of source multipoles
    const long H = c.geo.H;
    std::map<std::pair<long, Coord<D>>, std::array<long, vp::PSET_N>> expM, expL;
    for (long L = 0; L < H; ++L) { for (const auto& cc : cs.level[L]) expM[{L, cc}].fill(0); for (const auto& cc : ct.level[L]) expL[{L, cc}].fill(0); }
    if (H > c.upper) {
        for (long i = 0; i < Ns; ++i) { Coord<D> a = ls[i]; for (long L = H - 1; L >= c.upper; --L) { expM[{L, a}][i] += 1; a = vm::parentOf<D>(a); } }
        for (long L = c.upper; L < H; ++L) for (const auto& cc : ct.level[L]) {
            auto& l = expL[{L, cc}];
            if (L > c.upper) { const auto& pl = expL[{L - 1, vm::parentOf<D>(cc)}]; for (int i = 0; i < vp::PSET_N; ++i) l[i] += pl[i]; }
            for (const auto& o : vm::interactionOffsets<D>(cc, L, E::Space::IsPeriodic)) {
                Coord<D> s = vm::add<D>(cc, o); if (E::Space::IsPeriodic) s = vm::wrapTo<D>(s, L);
                auto it = expM.find({L, s}); if (it == expM.end()) continue;
                for (int i = 0; i < vp::PSET_N; ++i) l[i] += it->second[i];
            }
        }
    }
    long cellsChecked = 0;
    tree.applyToAllCellsSource([&](long L, auto& hdr, auto& mOpt, auto& lOpt) {
        Coord<D> cc; for (int d = 0; d < D; ++d) cc[d] = hdr.boxCoord[d];
        auto it = expM.find({L, cc}); if (it == expM.end()) { res.fail("c09:source-cell-not-in-model", vh::astr(cc)); return; }
        const auto& m = mOpt->get(); ++cellsChecked;
        for (int i = 0; i < vp::PSET_N; ++i) if (long(m[i]) != it->second[i]) { res.fail("c09:source-multipole", "level " + vh::str(L) + " cell " + vh::astr(cc) + " source " + vh::str(i) + " got " + vh::str(m[i]) + " expected " + vh::str(it->second[i])); break; }
        (void)lOpt;
    });
    tree.applyToAllCellsTarget([&](long L, auto& hdr, auto& mOpt, auto& lOpt) {
        Coord<D> cc; for (int d = 0; d < D; ++d) cc[d] = hdr.boxCoord[d];
        auto it = expL.find({L, cc}); if (it == expL.end()) { res.fail("c09:target-cell-not-in-model", vh::astr(cc)); return; }
        const auto& l = lOpt->get(); ++cellsChecked;
        for (int i = 0; i < vp::PSET_N; ++i) if (long(l[i]) != it->second[i]) { res.fail("c09:target-local", "level " + vh::str(L) + " cell " + vh::astr(cc) + " source " + vh::str(i) + " got " + vh::str(l[i]) + " expected " + vh::str(it->second[i])); break; }
        (void)mOpt;
    });
    res.ev("tsm-cells-checked", cellsChecked);
}

// P-poly on a Tsm tree (plain or checked kernel is chosen by the executor type passed in)
template <class E> struct TsmPolyRun {
    static constexpr int D = E::Cfg::Dim;
    typename E::PolyCtx ctx;
    std::unique_ptr<typename E::Cfg> cfg;
    std::unique_ptr<typename TsmTypes<E>::PolyTree> tree;
    std::vector<uint64_t> expected;
    long Ns = 0, Nt = 0;
    void build(const TsmConf<E>& c) {
        Ns = long(c.src.size()); Nt = long(c.tgt.size());
        cfg.reset(new typename E::Cfg(c.geo.H, c.geo.width, c.geo.center));
        setupPolyCtx<E>(ctx, *cfg, c.src, c.tgt, c.seed, false);
        E::PolyKernel::globalCtx() = &ctx;
        tree.reset(new typename TsmTypes<E>::PolyTree(*cfg, c.src, c.tgt, c.blockSize, c.ogp));
    }
    void reference(long lo = (E::Space::IsPeriodic ? -1 : 0), long hi = (E::Space::IsPeriodic ? 1 : 0)) {
        std::array<uint64_t, D> bw; bw.fill(uint64_t(2) * uint64_t((1L << (cfg->getTreeHeight() - 1)) * 4));
        expected = directSum<D, E::DEG>(ctx, false, lo, hi, bw);
    }
    void compare(Result& res, const std::string& key) {
        long bad = 0;
        tree->applyToAllLeavesTarget([&](auto& hdr, const long* idx, auto&&, auto&& rhs) {
            for (long p = 0; p < hdr.nbParticles; ++p) if (rhs[0][p] != expected[idx[p]]) { if (!bad) res.fail(key, "target " + vh::str(idx[p]) + " leaf " + vh::astr(hdr.boxCoord) + " got " + vh::str(rhs[0][p]) + " expected " + vh::str(expected[idx[p]])); ++bad; }
        });
        res.ev("poly-results-checked", Nt);
    }
    // byte snapshot: source multipoles, target locals, target results, symbolic hash
    struct Snap { std::map<std::pair<long, std::vector<long>>, typename E::PV> m, l; std::vector<uint64_t> rhs; uint64_t symbolic = 0;
        bool operator==(const Snap& o) const { return m == o.m && l == o.l && rhs == o.rhs && symbolic == o.symbolic; } };
    Snap snapshot() {
        Snap s;
        tree->applyToAllCellsSource([&](long L, auto& hdr, auto& m, auto&) { s.m[{L, std::vector<long>(hdr.boxCoord.begin(), hdr.boxCoord.end())}] = m->get(); });
        tree->applyToAllCellsTarget([&](long L, auto& hdr, auto&, auto& l) { s.l[{L, std::vector<long>(hdr.boxCoord.begin(), hdr.boxCoord.end())}] = l->get(); });
        s.rhs.assign(Nt, 0);
        tree->applyToAllLeavesTarget([&](auto& hdr, const long* idx, auto&&, auto&& rhs) { for (long p = 0; p < hdr.nbParticles; ++p) s.rhs[idx[p]] = rhs[0][p]; });
        uint64_t h = 5;
        for (long L = 0; L < tree->getHeight(); ++L) { for (const auto& g : tree->getCellGroupsAtLevelSource(L)) h = vh::fnv(g.getDataPtr(), g.getDataSize(), h); for (const auto& g : tree->getCellGroupsAtLevelTarget(L)) h = vh::fnv(g.getDataPtr(), g.getDataSize(), h); }
        for (const auto& g : tree->getParticleGroupsSource()) h = vh::fnv(g.getDataPtr(), g.getDataSize(), h);
        for (const auto& g : tree->getParticleGroupsTarget()) h = vh::fnv(g.getDataPtr(), g.getDataSize(), h);
        s.symbolic = h;
        return s;
    }
    void fillRec(vp::RecCtx<D>& rc, const TsmConf<E>& c) {
        rc.multipoles.clear(); rc.locals.clear();
        rc.height = cfg->getTreeHeight(); rc.periodic = E::Space::IsPeriodic; rc.nbDataValues = E::NV; rc.nbSrc = Ns; rc.nbTgt = Nt;
        tree->applyToAllCellsSource([&](long L, auto& hdr, auto& m, auto&) { rc.multipoles[&m->get()] = vp::CellId{L, std::vector<long>(hdr.boxCoord.begin(), hdr.boxCoord.end()), 0}; });
        tree->applyToAllCellsTarget([&](long L, auto& hdr, auto&, auto& l) { rc.locals[&l->get()] = vp::CellId{L, std::vector<long>(hdr.boxCoord.begin(), hdr.boxCoord.end()), 1}; });
        using Real = typename E::Cfg::RealType;
        const typename E::Parts* sp = &c.src; const typename E::Parts* tp = &c.tgt;
        rc.dataEquals = [sp, tp](int t, long idx, int v, const void* p) { return std::memcmp(&(*(t == 0 ? sp : tp))[idx][v], p, sizeof(Real)) == 0; };
        const long nl = 1L << (cfg->getTreeHeight() - 1);
        std::array<long double, D> corner, lw, tol;
        for (int d = 0; d < D; ++d) { corner[d] = cfg->getBoxCorner()[d]; lw[d] = (long double)cfg->getBoxWidths()[d] / nl; tol[d] = 4 * (long double)std::numeric_limits<Real>::epsilon() * (std::fabs(corner[d]) + (long double)cfg->getBoxWidths()[d]); }
        rc.insideLeaf = [corner, lw, tol](const Coord<D>& leaf, const long double* p) { for (int d = 0; d < D; ++d) { const long double lo = corner[d] + leaf[d] * lw[d], hi = corner[d] + (leaf[d] + 1) * lw[d]; if (p[d] < lo - tol[d] || p[d] > hi + tol[d]) return false; } return true; };
    }
};

} // namespace fmm
#endif
