// Engine h_fmm: sequential executors + probe kernels on single trees (C01, C02, C08, C12, C18 sequential half, C06 exec half).
#ifndef VH_FMM_CORE_HPP
#define VH_FMM_CORE_HPP

#include "tbx.hpp"
#include "probes.hpp"
#include "algorithms/sequential/tbfalgorithm.hpp"
#include "kernels/counterkernels/tbfinteractioncounter.hpp"
#include "kernels/testkernel/tbftestkernel.hpp"

namespace fmm {

using vm::Coord;
using vh::Result;

struct Segment {
    std::string name;
    std::function<long(bool)> count;
    std::function<void(long, uint64_t, bool, Result&)> run;
};

template <class Real, int D, bool PER, class SpaceT = tbx::Morton<Real, D, PER>>
struct Env {
    using Space = SpaceT;
    using Cfg = tbx::Config<Real, D>;
    static constexpr int NV = D + 1;
    static constexpr int DEG = (D <= 3 ? 3 : 2);
    using Parts = std::vector<std::array<Real, NV>>;
    using PV = vp::PolyVec<D, DEG>;
    using PolyCtx = vp::PolyCtx<D, DEG>;
    using SetKernel = vp::PSet<Real, Space>;
    using PolyKernel = vp::PPoly<Real, Space, DEG>;
    using CheckedPoly = vp::Checked<PolyKernel, D>;
    using SetTree = TbfTree<Real, Real, NV, vp::SetVec, 1, vp::SetVec, vp::SetVec, Space>;
    using PolyTree = TbfTree<Real, Real, NV, uint64_t, 1, PV, PV, Space>;
    static constexpr bool IsHilbert = !std::is_same<SpaceT, tbx::Morton<Real, D, PER>>::value;
    static const char* orderingName() { return IsHilbert ? "hilbert" : (PER ? "morton-periodic" : "morton"); }
};

//---------------------------------------------------------------- lattice embedding for P-poly
template <class E> void setupPolyCtx(typename E::PolyCtx& ctx, const typename E::Cfg& cfg, const typename E::Parts& src, const typename E::Parts& tgt, uint64_t seed, bool sameSet) {
    constexpr int D = E::Cfg::Dim;
    const long G = (1L << (cfg.getTreeHeight() - 1)) * 4;
    for (int d = 0; d < D; ++d) ctx.unit[d] = double(cfg.getBoxWidths()[d]) / double(G);
    ctx.initCoef(vh::mix(seed, 0xC0EF));
    auto embed = [&](const typename E::Parts& ps, std::vector<Coord<D>>& X) {
        X.resize(ps.size());
        for (size_t i = 0; i < ps.size(); ++i) for (int d = 0; d < D; ++d) X[i][d] = 2 * std::llround((double(ps[i][d]) - double(cfg.getBoxCorner()[d])) / ctx.unit[d]);
    };
    embed(src, ctx.srcX);
    vh::Rng r(vh::mix(seed, 0x3E1));
    ctx.srcW.resize(src.size()); for (auto& w : ctx.srcW) w = r.next() | 1ULL;
    if (sameSet) { ctx.tgtX = ctx.srcX; ctx.tgtW = ctx.srcW; }
    else { embed(tgt, ctx.tgtX); ctx.tgtW.assign(tgt.size(), 0); }
}

// Direct sum: phi_i = sum_{j != i (same set) } w_j sum_{s in images} K(x_i - x_j - s*boxWidth), excluding (j==i, s==0).
// imagesLo/Hi: per-dimension inclusive interval of image shifts (0,0 when not periodic).
template <int D, int DEG> std::vector<uint64_t> directSum(const vp::PolyCtx<D, DEG>& ctx, bool sameSet, long lo, long hi, const std::array<uint64_t, D>& boxW) {
    const auto& mo = vp::mono<D, DEG>();
    constexpr int N = vp::PolyCtx<D, DEG>::N;
    std::vector<uint64_t> out(ctx.tgtX.size(), 0);
    const bool images = !(lo == 0 && hi == 0);
    for (size_t i = 0; i < ctx.tgtX.size(); ++i) {
        uint64_t acc = 0;
        for (size_t j = 0; j < ctx.srcX.size(); ++j) {
            if (!images) {
                if (sameSet && i == j) continue;
                std::array<uint64_t, D> r; for (int d = 0; d < D; ++d) r[d] = uint64_t(ctx.tgtX[i][d]) - uint64_t(ctx.srcX[j][d]);
                acc += ctx.srcW[j] * ctx.K(r);
            } else {
                // S[d][k] = sum_s (r_d - s*W_d)^k
                uint64_t S[D][DEG + 1];
                for (int d = 0; d < D; ++d) {
                    for (int k = 0; k <= DEG; ++k) S[d][k] = 0;
                    const uint64_t r = uint64_t(ctx.tgtX[i][d]) - uint64_t(ctx.srcX[j][d]);
                    for (long s = lo; s <= hi; ++s) { const uint64_t v = r - uint64_t(s) * boxW[d]; uint64_t p = 1; for (int k = 0; k <= DEG; ++k) { S[d][k] += p; p *= v; } }
                }
                uint64_t sum = 0;
                for (int a = 0; a < N; ++a) { uint64_t t = ctx.coef[a]; for (int d = 0; d < D; ++d) t *= S[d][mo.e[a][d]]; sum += t; }
                if (sameSet && i == j) { std::array<uint64_t, D> z; z.fill(0); sum -= ctx.K(z); }
                acc += ctx.srcW[j] * sum;
            }
        }
        out[i] = acc;
    }
    return out;
}

// O(N * NM^2) evaluation through global moments (non-periodic, same set); cross-checked against directSum on small N.
template <int D, int DEG> std::vector<uint64_t> directSumMoments(const vp::PolyCtx<D, DEG>& ctx) {
    const auto& mo = vp::mono<D, DEG>();
    constexpr int N = vp::PolyCtx<D, DEG>::N;
    std::array<uint64_t, N> M{}; // sum_j w_j x_j^beta
    for (size_t j = 0; j < ctx.srcX.size(); ++j) {
        uint64_t pw[D][DEG + 1];
        for (int d = 0; d < D; ++d) { pw[d][0] = 1; for (int k = 1; k <= DEG; ++k) pw[d][k] = pw[d][k - 1] * uint64_t(ctx.srcX[j][d]); }
        for (int b = 0; b < N; ++b) { uint64_t t = ctx.srcW[j]; for (int d = 0; d < D; ++d) t *= pw[d][mo.e[b][d]]; M[b] += t; }
    }
    std::array<uint64_t, D> z; z.fill(0);
    const uint64_t K0 = ctx.K(z);
    std::vector<uint64_t> out(ctx.tgtX.size());
    for (size_t i = 0; i < ctx.tgtX.size(); ++i) {
        uint64_t pw[D][DEG + 1];
        for (int d = 0; d < D; ++d) { pw[d][0] = 1; for (int k = 1; k <= DEG; ++k) pw[d][k] = pw[d][k - 1] * uint64_t(ctx.tgtX[i][d]); }
        uint64_t s = 0;
        // (x - y)^alpha = sum_{beta<=alpha} binom x^(alpha-beta) (-y)^beta
        for (const auto& p : mo.shift) { // hi = alpha, lo = beta, t = alpha-beta
            uint64_t t = ctx.coef[p.hi] * p.binom * M[p.lo];
            int sb = 0; for (int d = 0; d < D; ++d) { t *= pw[d][p.t[d]]; sb += mo.e[p.lo][d]; }
            if (sb & 1) t = uint64_t(0) - t;
            s += t;
        }
        out[i] = s - ctx.srcW[i] * K0;
    }
    return out;
}

//---------------------------------------------------------------- a fully specified single-tree configuration
template <class E> struct Conf {
    tbx::Geo<typename E::Cfg::RealType, E::Cfg::Dim> geo;
    typename E::Parts parts;
    long blockSize = 1;
    bool oneGroupPerParent = false;
    long upper = 2;
    std::string dist;
    uint64_t seed = 0;
    bool rebuildFirst = false;   // call rebuild() (nothing moved) between construction and execution: a rebuilt tree is a tree like any other
};

template <class E> std::string confSig(const Conf<E>& c, uint64_t occHash) {
    std::ostringstream os;
    os << "D" << E::Cfg::Dim << ",H" << c.geo.H << "," << E::orderingName() << ",bs" << c.blockSize << ",ogp" << c.oneGroupPerParent << ",up" << c.upper << ",N" << c.parts.size() << ",occ" << std::hex << occHash;
    return os.str();
}
template <class E> std::string confDesc(const Conf<E>& c) {
    std::ostringstream os;
    os << "Dim=" << E::Cfg::Dim << " height=" << c.geo.H << " box=" << c.geo.name << " width=" << vh::astr(c.geo.width) << " centre=" << vh::astr(c.geo.center)
       << " N=" << c.parts.size() << " dist=" << c.dist << " blockSize=" << c.blockSize << " oneGroupPerParent=" << c.oneGroupPerParent << " upper=" << c.upper << " ordering=" << E::orderingName()
       << (c.rebuildFirst ? " rebuilt-before-execution" : "");
    return os.str();
}

template <int D> uint64_t occHash(const std::set<Coord<D>>& s) { uint64_t h = 7; for (const auto& c : s) for (long v : c) h = vh::mix(h, uint64_t(v)); return h; }

//---------------------------------------------------------------- C01: P-set path
template <class E> void runSetC01(const Conf<E>& c, Result& res, bool& nontrivial, uint64_t& occ, bool checkCells = true) {
    constexpr int D = E::Cfg::Dim;
    using Real = typename E::Cfg::RealType;
    const long N = long(c.parts.size());
    const typename E::Cfg cfg(c.geo.H, c.geo.width, c.geo.center);
    typename E::SetTree tree(cfg, c.parts, c.blockSize, c.oneGroupPerParent);
    if (c.rebuildFirst) { tree.rebuild(); res.ev("trees-rebuilt-before-execution"); }
    TbfAlgorithm<Real, typename E::SetKernel, typename E::Space> algo(cfg, c.upper);
    algo.execute(tree);

    bool idxOk = true;
    const auto leafOf = tbx::leafOfParticle<D>(tree, N, &idxOk);
    if (!idxOk) { res.fail("c01:index-multiset", "original indices are not a permutation of 0..N-1"); return; }
    vm::Cells<D> cells; cells.build(c.geo.H, tbx::leafSet<D>(leafOf));
    occ = occHash<D>(cells.level[c.geo.H - 1]);
    const auto ps = vm::pairSpec<D>(cells, cells, E::Space::IsPeriodic, c.upper, false);
    nontrivial = cells.level[c.geo.H - 1].size() >= 2 && (!ps.far.empty() || ps.near.size() > cells.level[c.geo.H - 1].size());
    res.ev("set-trees");
    long farPairs = 0, nearPairs = 0;
    tree.applyToAllLeaves([&](auto& hdr, const long* idx, auto&&, auto&& rhs) {
        for (long p = 0; p < hdr.nbParticles; ++p) {
            const long i = idx[p];
            for (long j = 0; j < N; ++j) {
                long expect = 0, f = 0, n = 0;
                auto itf = ps.far.find({leafOf[i], leafOf[j]}); if (itf != ps.far.end()) f = itf->second;
                auto itn = ps.near.find({leafOf[i], leafOf[j]}); if (itn != ps.near.end()) n = itn->second;
                expect = f + n - (i == j ? 1 : 0);
                farPairs += f; nearPairs += n;
                if (!E::Space::IsPeriodic && c.upper <= 2 && expect != (i == j ? 0 : 1))
                    res.fail("c01:model-self-check", "model expects " + vh::str(expect) + " for pair (" + vh::str(i) + "," + vh::str(j) + ")");
                const long got = rhs[0][p][j];
                if (got != expect) {
                    const char* how = (f && n) ? "both" : f ? "far" : n ? "near" : "none";
                    res.fail(std::string("c01:pair-count:") + (got < expect ? "lost" : "extra"),
                             "target " + vh::str(i) + " leaf " + vh::astr(leafOf[i]) + " source " + vh::str(j) + " leaf " + vh::astr(leafOf[j]) + " got " + vh::str(got) + " expected " + vh::str(expect) + " (expected via " + how + ")");
                }
            }
        }
    });
    res.ev("pairs-checked", N * N); res.ev("far-pairs", farPairs); res.ev("near-pairs", nearPairs);
    if (!checkCells) return;
    // cell-level statement: multipole = particles contained; local = sum over cell and ancestors of interaction-list multipoles
    std::map<std::pair<long, Coord<D>>, std::array<long, vp::PSET_N>> expM, expL;
    const long H = c.geo.H;
    for (long L = 0; L < H; ++L) for (const auto& cc : cells.level[L]) { expM[{L, cc}].fill(0); expL[{L, cc}].fill(0); }
    if (H > c.upper) {
        for (long i = 0; i < N; ++i) { Coord<D> a = leafOf[i]; for (long L = H - 1; L >= c.upper; --L) { expM[{L, a}][i] += 1; a = vm::parentOf<D>(a); } }
        for (long L = c.upper; L < H; ++L) for (const auto& cc : cells.level[L]) {
            auto& l = expL[{L, cc}];
            if (L > c.upper) { const auto& pl = expL[{L - 1, vm::parentOf<D>(cc)}]; for (int i = 0; i < vp::PSET_N; ++i) l[i] += pl[i]; }
            for (const auto& o : vm::interactionOffsets<D>(cc, L, E::Space::IsPeriodic)) {
                Coord<D> s = vm::add<D>(cc, o); if (E::Space::IsPeriodic) s = vm::wrapTo<D>(s, L);
                auto it = expM.find({L, s}); if (it == expM.end()) continue;
                for (int i = 0; i < vp::PSET_N; ++i) l[i] += it->second[i];
            }
        }
    }
    long cellsChecked = 0;
    tree.applyToAllCells([&](long L, auto& hdr, auto& mOpt, auto& lOpt) {
        Coord<D> cc; for (int d = 0; d < D; ++d) cc[d] = hdr.boxCoord[d];
        auto itM = expM.find({L, cc});
        if (itM == expM.end()) { res.fail("c01:cell-not-in-model", "level " + vh::str(L) + " cell " + vh::astr(cc)); return; }
        ++cellsChecked;
        const auto& m = mOpt->get(); const auto& l = lOpt->get();
        const auto& em = itM->second; const auto& el = expL[{L, cc}];
        for (int i = 0; i < vp::PSET_N; ++i) {
            if (long(m[i]) != em[i]) { res.fail(L < c.upper ? "c01:multipole-above-upper" : "c01:multipole", "level " + vh::str(L) + " cell " + vh::astr(cc) + " particle " + vh::str(i) + " got " + vh::str(m[i]) + " expected " + vh::str(em[i])); break; }
        }
        for (int i = 0; i < vp::PSET_N; ++i) {
            if (long(l[i]) != el[i]) { res.fail(L < c.upper ? "c01:local-above-upper" : "c01:local", "level " + vh::str(L) + " cell " + vh::astr(cc) + " source " + vh::str(i) + " got " + vh::str(l[i]) + " expected " + vh::str(el[i])); break; }
        }
    });
    res.ev("cells-checked", cellsChecked);
}

//---------------------------------------------------------------- P-poly path (any kernel wrapper K over the poly tree)
template <class E, class Kernel> struct PolyRun {
    static constexpr int D = E::Cfg::Dim;
    using Real = typename E::Cfg::RealType;
    typename E::PolyCtx ctx;
    std::unique_ptr<typename E::PolyTree> tree;
    std::unique_ptr<typename E::Cfg> cfg;
    std::vector<uint64_t> expected;
    long N = 0;

    void build(const Conf<E>& c) {
        N = long(c.parts.size());
        cfg.reset(new typename E::Cfg(c.geo.H, c.geo.width, c.geo.center));
        setupPolyCtx<E>(ctx, *cfg, c.parts, c.parts, c.seed, true);
        E::PolyKernel::globalCtx() = &ctx;
        tree.reset(new typename E::PolyTree(*cfg, c.parts, c.blockSize, c.oneGroupPerParent));
        if (c.rebuildFirst) tree->rebuild();
    }
    // imagesLo..imagesHi: interval of periodic images per dimension (the periodic ordering alone, with upper
    // level 1, covers the 3^D nearest images; the top tree extends it)
    void reference(bool crossCheck, Result& res, long imagesLo = (E::Space::IsPeriodic ? -1 : 0), long imagesHi = (E::Space::IsPeriodic ? 1 : 0)) {
        std::array<uint64_t, D> bw;
        bw.fill(uint64_t(2) * uint64_t((1L << (cfg->getTreeHeight() - 1)) * 4));
        if (imagesLo != 0 || imagesHi != 0) { expected = directSum<D, E::DEG>(ctx, true, imagesLo, imagesHi, bw); return; }
        if (N <= 1500) {
            expected = directSum<D, E::DEG>(ctx, true, 0, 0, bw);
            if (crossCheck && N <= 300) { const auto m = directSumMoments<D, E::DEG>(ctx); if (m != expected) res.fail("harness:reference-disagree", "pairwise and moment references differ"); }
        } else expected = directSumMoments<D, E::DEG>(ctx);
    }
    // compare rhs with `mult` times the reference plus `base`
    void compare(Result& res, const std::string& key, uint64_t mult = 1, const std::vector<uint64_t>* base = nullptr) {
        long bad = 0;
        tree->applyToAllLeaves([&](auto& hdr, const long* idx, auto&&, auto&& rhs) {
            for (long p = 0; p < hdr.nbParticles; ++p) {
                const uint64_t want = mult * expected[idx[p]] + (base ? (*base)[idx[p]] : 0);
                if (rhs[0][p] != want) { if (!bad) res.fail(key, "particle " + vh::str(idx[p]) + " leaf " + vh::astr(hdr.boxCoord) + " got " + vh::str(rhs[0][p]) + " expected " + vh::str(want)); ++bad; }
            }
        });
        res.ev("poly-results-checked", N);
        if (bad) res.ev("poly-mismatches", bad);
    }
    std::vector<uint64_t> rhsByIndex() {
        std::vector<uint64_t> out(N);
        tree->applyToAllLeaves([&](auto& hdr, const long* idx, auto&&, auto&& rhs) { for (long p = 0; p < hdr.nbParticles; ++p) out[idx[p]] = rhs[0][p]; });
        return out;
    }
};

template <class E> void runPolyC01(const Conf<E>& c, Result& res) {
    using Real = typename E::Cfg::RealType;
    PolyRun<E, typename E::PolyKernel> pr;
    pr.build(c);
    // the upper level is left to the constructor's default argument when the configuration asks for the documented default
    using AlgoT = TbfAlgorithm<Real, typename E::PolyKernel, typename E::Space>;
    auto algo = (c.upper == TbfDefaultLastLevel) ? std::make_unique<AlgoT>(*pr.cfg) : std::make_unique<AlgoT>(*pr.cfg, c.upper);
    algo->execute(*pr.tree);
    pr.reference(true, res);
    pr.compare(res, "c01:poly-direct-sum");
    res.ev("poly-trees");
}

//---------------------------------------------------------------- recorder set-up for Checked kernels
template <class E, class Tree> void fillRecCtx(vp::RecCtx<E::Cfg::Dim>& rc, Tree& tree, const typename E::Cfg& cfg, const typename E::Parts* srcParts, const typename E::Parts* tgtParts, int treeId = 0, bool clear = true) {
    constexpr int D = E::Cfg::Dim;
    using Real = typename E::Cfg::RealType;
    if (clear) { rc.multipoles.clear(); rc.locals.clear(); }
    rc.height = cfg.getTreeHeight();
    rc.periodic = E::Space::IsPeriodic;
    rc.nbDataValues = E::NV;
    if (srcParts) rc.nbSrc = long(srcParts->size());
    if (tgtParts) rc.nbTgt = long(tgtParts->size());
    tree.applyToAllCells([&](long L, auto& hdr, auto& mOpt, auto& lOpt) {
        std::vector<long> cc(hdr.boxCoord.begin(), hdr.boxCoord.end());
        if (mOpt) rc.multipoles[&mOpt->get()] = vp::CellId{L, cc, treeId};
        if (lOpt) rc.locals[&lOpt->get()] = vp::CellId{L, cc, treeId};
    });
    rc.dataEquals = [srcParts, tgtParts](int t, long idx, int v, const void* p) {
        const auto* ps = t == 0 ? srcParts : tgtParts;
        if (!ps) return true;
        return std::memcmp(&(*ps)[idx][v], p, sizeof(Real)) == 0;
    };
    // containment: closed leaf box, tolerance 4 ulp of max(|p|,|corner|,width) in RealType
    const long nl = 1L << (cfg.getTreeHeight() - 1);
    std::array<long double, D> corner, lw, tol;
    for (int d = 0; d < D; ++d) {
        corner[d] = cfg.getBoxCorner()[d]; lw[d] = (long double)cfg.getBoxWidths()[d] / nl;
        tol[d] = 4 * (long double)std::numeric_limits<Real>::epsilon() * std::max<long double>(std::fabs(corner[d]) + (long double)cfg.getBoxWidths()[d], (long double)cfg.getBoxWidths()[d]);
    }
    rc.insideLeaf = [corner, lw, tol](const Coord<D>& leaf, const long double* p) {
        for (int d = 0; d < D; ++d) {
            const long double lo = corner[d] + leaf[d] * lw[d], hi = corner[d] + (leaf[d] + 1) * lw[d];
            if (p[d] < lo - tol[d] || p[d] > hi + tol[d]) return false;
        }
        return true;
    };
}

template <int D> void drainRec(vp::RecCtx<D>& rc, Result& res, const std::string& prefix) {
    for (auto& v : rc.violations) res.fail(prefix + v.first, v.second);
    for (int op = 0; op < vm::OP_NB; ++op) if (rc.calls[op]) res.ev(std::string("calls-") + vm::opName(op), rc.calls[op]);
    for (auto& kv : rc.counters) res.ev(kv.first, kv.second);
    res.ev("elementary-interactions", (long long)rc.elems.size());
}

template <int D> std::string elemStr(const vm::Elem& e) {
    return std::string(vm::opName(e.op)) + " L" + vh::str(e.level) + " tgt" + vh::astr(e.tgt) + " src" + vh::astr(e.src) + " code" + vh::str(e.code);
}

// compare a recorded multiset with the model's; reports the first missing / extra element
template <int D> void compareElems(std::vector<vm::Elem> got, const std::vector<vm::Elem>& want, Result& res, const std::string& key) {
    std::sort(got.begin(), got.end());
    size_t i = 0, j = 0;
    while (i < got.size() || j < want.size()) {
        if (j == want.size() || (i < got.size() && got[i] < want[j])) { res.fail(key + ":extra:" + vm::opName(got[i].op), "performed but not in the model: " + elemStr<D>(got[i])); return; }
        if (i == got.size() || want[j] < got[i]) { res.fail(key + ":missing:" + vm::opName(want[j].op), "in the model but not performed: " + elemStr<D>(want[j])); return; }
        ++i; ++j;
    }
}

//---------------------------------------------------------------- C02 / C08 / C12 building block: one checked execution
template <class A, class B, class C> using SeqAlgoT = TbfAlgorithm<A, B, C>;
template <class E, template <class, class, class> class Algo = SeqAlgoT> struct CheckedRun {
    static constexpr int D = E::Cfg::Dim;
    using Real = typename E::Cfg::RealType;
    PolyRun<E, typename E::CheckedPoly> pr;
    vp::RecCtx<D> rc;
    std::unique_ptr<Algo<Real, typename E::CheckedPoly, typename E::Space>> algo;
    vm::Cells<D> cells;
    std::vector<Coord<D>> leafOf;
    bool ok = true;

    void build(const Conf<E>& c, Result& res) {
        pr.build(c);
        fillRecCtx<E>(rc, *pr.tree, *pr.cfg, &c.parts, &c.parts);
        E::CheckedPoly::globalCtx() = &rc;
        algo.reset(new Algo<Real, typename E::CheckedPoly, typename E::Space>(*pr.cfg, c.upper));
        leafOf = tbx::leafOfParticle<D>(*pr.tree, pr.N, &ok);
        if (!ok) { res.fail("index-multiset", "original indices are not a permutation"); return; }
        cells.build(c.geo.H, tbx::leafSet<D>(leafOf));
    }
};

} // namespace fmm
#endif
