// C05: uniform (Lagrange/FFT) kernel FMM against the long double direct sum. One TU per (VH_ORDER, VH_REALF).
#include "num_core.hpp"
#include "kernels/unifkernel/FUnifKernel.hpp"
#include "algorithms/periodic/tbfalgorithmperiodictoptreetsm.hpp"

#ifndef VH_ORDER
#error "VH_ORDER required"
#endif
#if VH_REALF
using Real = float;
#else
using Real = double;
#endif
#define VH_CAT2(a, b, c) a##b##_##c
#define VH_CAT(a, b, c) VH_CAT2(a, b, c)
#define VH_FN VH_CAT(vh_num_segments_unif, VH_ORDER, VH_REALF)

namespace {
using namespace num;
constexpr int ORDER = VH_ORDER;
constexpr long VS = TensorTraits<ORDER>::nnodes;
constexpr long TVS = (2 * ORDER - 1) * (2 * ORDER - 1) * (2 * ORDER - 1);
struct MultipoleData { Real multipole_exp[VS]; std::complex<Real> transformed_multipole_exp[TVS]; };
struct LocalData { Real local_exp[VS]; std::complex<Real> transformed_local_exp[TVS]; };
using Cfg = tbx::Config<Real, 3>;
using SpaceN = tbx::Morton<Real, 3, false>;
using SpaceP = tbx::Morton<Real, 3, true>;
template <class Space> using Tree = TbfTree<Real, Real, 4, Real, 4, MultipoleData, LocalData, Space>;
template <class Space> using TreeTsm = TbfTreeTsm<Real, Real, 4, Real, 4, MultipoleData, LocalData, Space>;
template <class Space> using Kernel = FUnifKernel<Real, FInterpMatrixKernelR<Real>, ORDER, 3, Space>;
const std::string KEY = std::string("unif.") + realName<Real>() + ".O" + vh::str(ORDER);

struct RunCfg { long bs; bool ogp; int exec; int threads; int policy; };
FInterpMatrixKernelR<Real>& mk() { static FInterpMatrixKernelR<Real> m; return m; }

template <class Space> std::vector<std::array<Real, 4>> runFmm(const Cfg& cfg, const Parts4<Real>& parts, const RunCfg& rc, long upper, std::map<std::pair<long, long>, std::vector<Real>>* multipoles = nullptr) {
    Tree<Space> tree(cfg, parts, rc.bs, rc.ogp);
    if (rc.exec == 0) { auto algo = std::make_unique<TbfAlgorithm<Real, Kernel<Space>, Space>>(cfg, Kernel<Space>(cfg, &mk()), upper); algo->execute(tree); }
    else {
        // VH_FORCE_WAVE (ThreadSanitizer jobs): mutually unordered tasks are released together on >= 4 real threads
        if (getenv("VH_FORCE_WAVE")) vsched::configure(std::max(4, rc.threads), vsched::WAVE_RANDOM, 7); else vsched::configure(rc.threads, rc.policy, 7);
        auto algo = std::make_unique<TbfOpenmpAlgorithm<Real, Kernel<Space>, Space>>(cfg, Kernel<Space>(cfg, &mk()), upper); algo->execute(tree);
    }
    if (multipoles) tree.applyToAllCells([&](long L, auto& hdr, auto& m, auto&) { auto& v = (*multipoles)[{L, hdr.spaceIndex}]; v.assign(m->get().multipole_exp, m->get().multipole_exp + VS); });
    return rhsByIndex<Real>(tree, long(parts.size()));
}

void accuracyCase(long kk, uint64_t seed, bool th, Result& res) {
    vh::Rng r(vh::mix(seed ^ 0xC05, uint64_t(kk) * 64 + ORDER * 2 + VH_REALF));
    const long maxH = ORDER >= 7 ? (th ? 5 : 4) : (th ? 6 : 5);
    const long H = r.range(1, maxH);
    auto geo = tbx::genGeo<Real, 3>(r, H, true, int(r.below(4)));
    const Cfg cfg(H, geo.width, geo.center);
    const int dists[] = {tbx::D_UNIFORM, tbx::D_CLUSTER, tbx::D_LATTICE, tbx::D_FACES, tbx::D_BOXFACES, 100, 101};
    int dist = dists[r.below(7)];
    if (H >= 5 && ORDER >= 5) dist = tbx::D_CLUSTER; // deep trees with big cells: keep the number of cells small
    const long N = th ? r.range(200, ORDER >= 7 ? 1200 : 3000) : r.range(100, ORDER >= 6 ? 500 : 1200);
    const int sign = ((kk / 4) % 3 == 0) ? 3 : int(r.below(3));   // 3 = neutral +q/-q pairs sharing a leaf (cells with zero net charge)
    const std::string cls = (dist == tbx::D_UNIFORM || dist == tbx::D_CLUSTER) ? ".smooth" : ".edge";
    const auto parts = genCharged<Real>(r, cfg, dist, N, sign, Real(double(geo.width[0]) * 1e-4));
    const long n = long(parts.size());
    const auto bss = tbx::blockSizesFor(n, false);
    const RunCfg rc{bss[r.below(bss.size())], r.coin(), 0, 1, 0};
    res.desc = KEY + " height=" + vh::str(H) + " box=" + geo.name + " width=" + vh::str((double)geo.width[0]) + " N=" + vh::str(n) + " dist=" + vh::str(dist) + " charges=" + (sign == 0 ? "+" : sign == 1 ? "-" : sign == 3 ? "neutral-pairs" : "+-") + " blockSize=" + vh::str(rc.bs) + " ogp=" + vh::str(rc.ogp);
    vh::announce(res.desc);
    if (n < 2) { res.skipped = true; res.skipReason = "fewer than 2 distinct particles"; return; }
    std::map<std::pair<long, long>, std::vector<Real>> m1;
    const auto got = runFmm<SpaceN>(cfg, parts, rc, 2, &m1);
    const auto which = sampleTargets(r, n, 1500, 300);
    std::array<Real, 3> w{geo.width[0], geo.width[1], geo.width[2]};
    const Ref R = reference<Real>(parts, parts, which, true, 0, 0, w);
    const Errs e = errorsAgainst<Real>(got, which, R);
    if (!e.finite) res.fail("c05:not-finite", res.desc);
    recordMax(res, KEY + ".pot" + cls, e.pot); recordMax(res, KEY + ".force" + cls, e.force);
    if (e.pot > boundOf(KEY + ".pot" + cls, res)) res.fail("c05:potential-error-above-bound", res.desc + " err=" + vh::str(e.pot) + " bound=" + vh::str(boundOf(KEY + ".pot" + cls, res)));
    if (e.force > boundOf(KEY + ".force" + cls, res)) res.fail("c05:force-error-above-bound", res.desc + " err=" + vh::str(e.force) + " bound=" + vh::str(boundOf(KEY + ".force" + cls, res)));
    res.ev("targets-compared", (long long)which.size()); res.ev("fmm-runs");
    if (kk % 3 == 0) {
        // batched children: block size 1 (every parent receives its children one call at a time) vs one huge block; also another executor
        RunCfg rc2{(kk % 2) ? 1L : 10000000L, !rc.ogp, getenv("VH_FORCE_WAVE") ? 1 : int((kk / 3) % 2), int(r.pick(std::vector<int>{1, 2, 4, 16})), int(r.below(vsched::NB_POLICIES))};
        std::map<std::pair<long, long>, std::vector<Real>> m2;
        const auto got2 = runFmm<SpaceN>(cfg, parts, rc2, 2, &m2);
        const Errs d = diffNormalised<Real>(got, got2, which, R);
        recordMax(res, KEY + ".inv", std::max(d.pot, d.force));
        if (std::max(d.pot, d.force) > boundOf(KEY + ".inv", res)) res.fail("c05:result-depends-on-grouping-or-executor", res.desc + " vs blockSize=" + vh::str(rc2.bs) + " exec=" + vh::str(rc2.exec) + " diff=" + vh::str(std::max(d.pot, d.force)));
        // parent expansions equal to rounding, cell by cell
        double worst = 0; long cellsCmp = 0;
        for (auto& kv : m1) {
            auto it = m2.find(kv.first); if (it == m2.end()) { res.fail("c05:cell-sets-differ", res.desc); break; }
            LD nrm = 0, dif = 0; for (long i = 0; i < VS; ++i) { nrm += std::fabs((LD)kv.second[i]); dif += std::fabs((LD)kv.second[i] - it->second[i]); }
            if (nrm > 0) worst = std::max(worst, double(dif / nrm)); ++cellsCmp;
        }
        recordMax(res, KEY + ".cells", worst);
        if (worst > boundOf(KEY + ".cells", res)) res.fail("c05:parent-expansion-depends-on-batching", res.desc + " relative L1 difference " + vh::str(worst));
        res.ev("invariance-pairs"); res.ev("cells-compared", cellsCmp); res.ev("fmm-runs");
    }
    res.sig = KEY + ",H" + vh::str(H) + ",N" + vh::str(n) + ",d" + vh::str(dist) + "," + vh::str(kk); res.nontrivial = H >= 3;
}

void tsmCase(long kk, uint64_t seed, bool th, Result& res) {
    vh::Rng r(vh::mix(seed ^ 0xC05C, uint64_t(kk) * 64 + ORDER * 2 + VH_REALF));
    const long H = r.range(1, th ? 5 : 4);
    auto geo = tbx::genGeo<Real, 3>(r, H, true, int(r.below(3)));
    const Cfg cfg(H, geo.width, geo.center);
    const auto src = genCharged<Real>(r, cfg, int(r.below(2)), r.range(50, th ? 800 : 300), int(r.below(3)), Real(double(geo.width[0]) * 1e-4));
    auto tgt = genCharged<Real>(r, cfg, int(r.below(2)), r.range(50, th ? 800 : 300), int(r.below(3)), Real(double(geo.width[0]) * 1e-4));
    // keep targets away from sources (1/r)
    Parts4<Real> t2; for (auto& t : tgt) { bool ok = true; for (auto& s : src) { const Real dx = s[0] - t[0], dy = s[1] - t[1], dz = s[2] - t[2]; if (dx * dx + dy * dy + dz * dz < Real(1e-8) * geo.width[0] * geo.width[0]) { ok = false; break; } } if (ok) t2.push_back(t); }
    tgt.swap(t2);
    res.desc = KEY + " target/source height=" + vh::str(H) + " box=" + geo.name + " Ns=" + vh::str(src.size()) + " Nt=" + vh::str(tgt.size());
    vh::announce(res.desc);
    if (src.empty() || tgt.empty()) { res.skipped = true; res.skipReason = "empty set"; return; }
    const auto bss = tbx::blockSizesFor(long(std::max(src.size(), tgt.size())), false);
    TreeTsm<SpaceN> tree(cfg, src, tgt, bss[r.below(bss.size())], r.coin());
    { auto algo = std::make_unique<TbfAlgorithmTsm<Real, Kernel<SpaceN>, SpaceN>>(cfg, Kernel<SpaceN>(cfg, &mk()), 2); algo->execute(tree); }
    std::vector<std::array<Real, 4>> got(tgt.size());
    tree.applyToAllLeavesTarget([&](auto& hdr, const long* idx, auto&&, auto&& rhs) { for (long p = 0; p < hdr.nbParticles; ++p) for (int v = 0; v < 4; ++v) got[idx[p]][v] = rhs[v][p]; });
    const auto which = sampleTargets(r, long(tgt.size()), 800, 200);
    std::array<Real, 3> w{geo.width[0], geo.width[1], geo.width[2]};
    const Ref R = reference<Real>(src, tgt, which, false, 0, 0, w);
    const Errs e = errorsAgainst<Real>(got, which, R);
    if (!e.finite) res.fail("c05:not-finite", res.desc);
    recordMax(res, KEY + ".pot.smooth", e.pot); recordMax(res, KEY + ".force.smooth", e.force);
    if (e.pot > boundOf(KEY + ".pot.smooth", res)) res.fail("c05:tsm-potential-error-above-bound", res.desc + " err=" + vh::str(e.pot));
    if (e.force > boundOf(KEY + ".force.smooth", res)) res.fail("c05:tsm-force-error-above-bound", res.desc + " err=" + vh::str(e.force));
    res.ev("tsm-runs"); res.ev("targets-compared", (long long)which.size());
    {
        // same input on the OpenMP target/source executor with another grouping: equal to rounding
        TreeTsm<SpaceN> tree2(cfg, src, tgt, (kk % 2) ? 1L : 10000000L, r.coin());
        const int threads = int(r.pick(std::vector<int>{1, 2, 4, 16}));
        if (getenv("VH_FORCE_WAVE")) vsched::configure(std::max(4, threads), vsched::WAVE_RANDOM, 7); else vsched::configure(threads, int(r.below(vsched::NB_POLICIES)), 7);
        { auto algo = std::make_unique<TbfOpenmpAlgorithmTsm<Real, Kernel<SpaceN>, SpaceN>>(cfg, Kernel<SpaceN>(cfg, &mk()), 2); algo->execute(tree2); }
        std::vector<std::array<Real, 4>> got2(tgt.size());
        tree2.applyToAllLeavesTarget([&](auto& hdr, const long* idx, auto&&, auto&& rhs) { for (long p = 0; p < hdr.nbParticles; ++p) for (int v = 0; v < 4; ++v) got2[idx[p]][v] = rhs[v][p]; });
        const Errs d = diffNormalised<Real>(got, got2, which, R);
        recordMax(res, KEY + ".inv", std::max(d.pot, d.force));
        if (std::max(d.pot, d.force) > boundOf(KEY + ".inv", res)) res.fail("c05:tsm-result-depends-on-grouping-or-executor", res.desc + " OpenMP target/source executor, diff=" + vh::str(std::max(d.pot, d.force)));
        res.ev("invariance-pairs"); res.ev("tsm-openmp-runs");
    }
    res.sig = KEY + ",tsm,H" + vh::str(H) + "," + vh::str(kk); res.nontrivial = H >= 3;
}

void periodicCase(long kk, uint64_t seed, bool th, Result& res) {
    using namespace TbfAlgorithmUtils;
    vh::Rng r(vh::mix(seed ^ 0xC05B, uint64_t(kk) * 64 + ORDER * 2 + VH_REALF));
    const bool singleLeaf = ((kk / 10) % 3 == 1);   // a single-leaf tree with extraLevels -1: the 27 nearest images through P2P alone, the leaf being its own periodic neighbour
    const long H = singleLeaf ? 1 : r.range(2, th ? 4 : 3);
    const long extra = singleLeaf ? -1 : r.range(-1, th ? 2 : 1);
    auto geo = tbx::genGeo<Real, 3>(r, H, true, int(r.below(3)));
    const Cfg cfg(H, geo.width, geo.center);
    const auto parts = genCharged<Real>(r, cfg, int(r.below(2)), r.range(30, th ? 150 : 80), int(r.below(3)), Real(double(geo.width[0]) * 1e-3));
    const long n = long(parts.size());
    res.desc = KEY + " periodic height=" + vh::str(H) + " extraLevels=" + vh::str(extra) + " box=" + geo.name + " N=" + vh::str(n);
    vh::announce(res.desc);
    if (n < 2) { res.skipped = true; res.skipReason = "too few particles"; return; }
    Tree<SpaceP> tree(cfg, parts, tbx::blockSizesFor(n, false)[r.below(3)], r.coin());
    long lo, hi;
    {
        auto algo = std::make_unique<TbfAlgorithm<Real, Kernel<SpaceP>, SpaceP>>(cfg, Kernel<SpaceP>(cfg, &mk()), TbfDefaultLastLevelPeriodic);
        const auto topCfg = TbfAlgorithmPeriodicTopTree<Real, Kernel<SpaceP>, MultipoleData, LocalData, SpaceP>::GenerateAboveTreeConfiguration(cfg, extra);
        auto top = std::make_unique<TbfAlgorithmPeriodicTopTree<Real, Kernel<SpaceP>, MultipoleData, LocalData, SpaceP>>(cfg, Kernel<SpaceP>(topCfg, &mk()), extra);
        algo->execute(tree, TbfBottomToTopStages); top->execute(tree); algo->execute(tree, TbfTransferStages); algo->execute(tree, TbfTopToBottomStages);
        const auto iv = top->getRepetitionsIntervals(); lo = iv.first[0]; hi = iv.second[0];
    }
    const auto got = rhsByIndex<Real>(tree, n);
    const auto which = sampleTargets(r, n, 50, 50);
    std::array<Real, 3> w{geo.width[0], geo.width[1], geo.width[2]};
    const Ref R = reference<Real>(parts, parts, which, true, lo, hi, w);
    const Errs e = errorsAgainst<Real>(got, which, R);
    if (!e.finite) res.fail("c05:not-finite", res.desc);
    recordMax(res, KEY + ".per.pot", e.pot); recordMax(res, KEY + ".per.force", e.force);
    if (e.pot > boundOf(KEY + ".per.pot", res)) res.fail("c05:periodic-potential-error-above-bound", res.desc + " err=" + vh::str(e.pot) + " images [" + vh::str(lo) + "," + vh::str(hi) + "]");
    if (e.force > boundOf(KEY + ".per.force", res)) res.fail("c05:periodic-force-error-above-bound", res.desc + " err=" + vh::str(e.force));
    res.ev("periodic-runs"); res.ev("targets-compared", (long long)which.size());
    res.sig = KEY + ",per,H" + vh::str(H) + ",x" + vh::str(extra) + "," + vh::str(kk); res.nontrivial = true;
}
// periodic target/source: periodic ordering, target/source tree and executor, target/source top tree, explicit image sum
void periodicTsmCase(long kk, uint64_t seed, bool th, Result& res) {
    using namespace TbfAlgorithmUtils;
    vh::Rng r(vh::mix(seed ^ 0xC05E, uint64_t(kk) * 64 + ORDER * 2 + VH_REALF));
    const long H = r.range(2, th ? 4 : 3);
    const long extra = r.range(-1, th ? 2 : 1);
    auto geo = tbx::genGeo<Real, 3>(r, H, true, int(r.below(3)));
    const Cfg cfg(H, geo.width, geo.center);
    const auto src = genCharged<Real>(r, cfg, int(r.below(2)), r.range(30, th ? 150 : 80), int(r.below(3)), Real(double(geo.width[0]) * 1e-3));
    auto tgt = genCharged<Real>(r, cfg, int(r.below(2)), r.range(30, th ? 150 : 80), int(r.below(3)), Real(double(geo.width[0]) * 1e-3));
    Parts4<Real> t2; for (auto& t : tgt) { bool ok = true; for (auto& q : src) { const Real dx = q[0] - t[0], dy = q[1] - t[1], dz = q[2] - t[2]; if (dx * dx + dy * dy + dz * dz < Real(1e-6) * geo.width[0] * geo.width[0]) { ok = false; break; } } if (ok) t2.push_back(t); }
    tgt.swap(t2);
    res.desc = KEY + " periodic target/source height=" + vh::str(H) + " extraLevels=" + vh::str(extra) + " box=" + geo.name + " Ns=" + vh::str(src.size()) + " Nt=" + vh::str(tgt.size());
    vh::announce(res.desc);
    if (src.empty() || tgt.empty()) { res.skipped = true; res.skipReason = "empty set"; return; }
    const auto bss = tbx::blockSizesFor(long(std::max(src.size(), tgt.size())), false);
    TreeTsm<SpaceP> tree(cfg, src, tgt, bss[r.below(bss.size())], r.coin());
    long lo, hi;
    {
        auto algo = std::make_unique<TbfAlgorithmTsm<Real, Kernel<SpaceP>, SpaceP>>(cfg, Kernel<SpaceP>(cfg, &mk()), TbfDefaultLastLevelPeriodic);
        using Top = TbfAlgorithmPeriodicTopTreeTsm<Real, Kernel<SpaceP>, MultipoleData, LocalData, SpaceP>;
        const auto topCfg = Top::GenerateAboveTreeConfiguration(cfg, extra);
        auto top = std::make_unique<Top>(cfg, Kernel<SpaceP>(topCfg, &mk()), extra);
        algo->execute(tree, TbfBottomToTopStages); top->execute(tree); algo->execute(tree, TbfTransferStages); algo->execute(tree, TbfTopToBottomStages);
        const auto iv = top->getRepetitionsIntervals(); lo = iv.first[0]; hi = iv.second[0];
    }
    std::vector<std::array<Real, 4>> got(tgt.size());
    tree.applyToAllLeavesTarget([&](auto& hdr, const long* idx, auto&&, auto&& rhs) { for (long p = 0; p < hdr.nbParticles; ++p) for (int v = 0; v < 4; ++v) got[idx[p]][v] = rhs[v][p]; });
    const auto which = sampleTargets(r, long(tgt.size()), 50, 50);
    std::array<Real, 3> w{geo.width[0], geo.width[1], geo.width[2]};
    const Ref R = reference<Real>(src, tgt, which, false, lo, hi, w);
    const Errs e = errorsAgainst<Real>(got, which, R);
    if (!e.finite) res.fail("c05:not-finite", res.desc);
    recordMax(res, KEY + ".per.pot", e.pot); recordMax(res, KEY + ".per.force", e.force);
    if (e.pot > boundOf(KEY + ".per.pot", res)) res.fail("c05:periodic-tsm-potential-error-above-bound", res.desc + " err=" + vh::str(e.pot) + " images [" + vh::str(lo) + "," + vh::str(hi) + "]");
    if (e.force > boundOf(KEY + ".per.force", res)) res.fail("c05:periodic-tsm-force-error-above-bound", res.desc + " err=" + vh::str(e.force));
    res.ev("periodic-tsm-runs"); res.ev("targets-compared", (long long)which.size());
    {
        // same input on the OpenMP target/source executor (periodic P2P shifts source positions by whole box widths: the shifted copies
        // are per call, the stored positions must come out untouched whatever overlaps): results equal to rounding, positions bit-identical
        TreeTsm<SpaceP> tree2(cfg, src, tgt, (kk % 2) ? 1L : 3L, r.coin());
        const int threads = int(r.pick(std::vector<int>{2, 4, 16}));
        if (getenv("VH_FORCE_WAVE")) vsched::configure(std::max(4, threads), vsched::WAVE_RANDOM, 7); else vsched::configure(threads, r.coin() ? int(vsched::WAVE_RANDOM) : int(vsched::WAVE_EAGER), 7);
        {
            auto algo = std::make_unique<TbfOpenmpAlgorithmTsm<Real, Kernel<SpaceP>, SpaceP>>(cfg, Kernel<SpaceP>(cfg, &mk()), TbfDefaultLastLevelPeriodic);
            using Top = TbfAlgorithmPeriodicTopTreeTsm<Real, Kernel<SpaceP>, MultipoleData, LocalData, SpaceP>;
            const auto topCfg = Top::GenerateAboveTreeConfiguration(cfg, extra);
            auto top = std::make_unique<Top>(cfg, Kernel<SpaceP>(topCfg, &mk()), extra);
            algo->execute(tree2, TbfBottomToTopStages); top->execute(tree2); algo->execute(tree2, TbfTransferStages); algo->execute(tree2, TbfTopToBottomStages);
        }
        std::vector<std::array<Real, 4>> got2(tgt.size());
        tree2.applyToAllLeavesTarget([&](auto& hdr, const long* idx, auto&& data, auto&& rhs) {
            for (long p = 0; p < hdr.nbParticles; ++p) { for (int v = 0; v < 4; ++v) got2[idx[p]][v] = rhs[v][p]; for (int v = 0; v < 4; ++v) if (std::memcmp(&data[v][p], &tgt[size_t(idx[p])][v], sizeof(Real)) != 0) res.fail("c06:positions-changed-by-execute", res.desc + " target " + vh::str(idx[p]) + " value " + vh::str(v)); } });
        tree2.applyToAllLeavesSource([&](auto& hdr, const long* idx, auto&& data, auto&&) {
            for (long p = 0; p < hdr.nbParticles; ++p) for (int v = 0; v < 4; ++v) if (std::memcmp(&data[v][p], &src[size_t(idx[p])][v], sizeof(Real)) != 0) res.fail("c06:positions-changed-by-execute", res.desc + " source " + vh::str(idx[p]) + " value " + vh::str(v) + " (OpenMP target/source executor)"); });
        const Errs d = diffNormalised<Real>(got, got2, which, R);
        recordMax(res, KEY + ".inv", std::max(d.pot, d.force));
        if (std::max(d.pot, d.force) > boundOf(KEY + ".inv", res)) res.fail("c05:periodic-tsm-result-depends-on-grouping-or-executor", res.desc + " OpenMP target/source executor, diff=" + vh::str(std::max(d.pot, d.force)));
        res.ev("invariance-pairs"); res.ev("periodic-tsm-openmp-runs");
    }
    res.sig = KEY + ",per-tsm,H" + vh::str(H) + ",x" + vh::str(extra) + "," + vh::str(kk); res.nontrivial = true;
}
// boxes far from the origin relative to their leaf width: announced as a context (the interpolation code asserts
// |x|-1 < 10 eps on the local coordinate, which rounding of large absolute positions exceeds: known finding of C05)
void farBoxCase(long kk, uint64_t seed, bool, Result& res) {
    vh::Rng r(vh::mix(seed ^ 0xC05D, uint64_t(kk) * 64 + ORDER * 2 + VH_REALF));
    const long H = r.range(3, 5);
    auto geo = tbx::genGeo<Real, 3>(r, H, true, 4);
    const Cfg cfg(H, geo.width, geo.center);
    const auto parts = genCharged<Real>(r, cfg, int(tbx::D_FACES), r.range(100, 400), int(r.below(3)), Real(double(geo.width[0]) * 1e-4));
    const long n = long(parts.size());
    res.desc = KEY + " box far from the origin height=" + vh::str(H) + " centre=" + vh::str((double)geo.center[0]) + " width=" + vh::str((double)geo.width[0]) + " N=" + vh::str(n) + " points on cell faces";
    vh::announce(res.desc);
    printf("CTX far-box\n"); fflush(stdout);
    if (n < 2) { res.skipped = true; res.skipReason = "too few"; return; }
    const RunCfg rc{tbx::blockSizesFor(n, false)[r.below(3)], r.coin(), 0, 1, 0};
    const auto got = runFmm<SpaceN>(cfg, parts, rc, 2);
    bool finite = true; for (auto& g : got) for (int v = 0; v < 4; ++v) if (!std::isfinite((double)g[v])) finite = false;
    if (!finite) res.fail("c05:not-finite@far-box", res.desc);
    res.ev("special-input-runs");
    res.sig = KEY + ",far," + vh::str(kk); res.nontrivial = true;
}
} // namespace

void VH_FN(std::map<std::string, std::vector<num::Segment>>& out) {
    num::Segment s; s.name = "c05-" + KEY;
    s.count = [](bool th) { return th ? (ORDER >= 7 ? 100L : 240L) : (ORDER >= 7 ? 30L : 60L); };
    s.run = [](long kk, uint64_t seed, bool th, vh::Result& res) { if (kk % 5 == 3) { if ((kk / 5) % 2 == 1) periodicTsmCase(kk, seed, th, res); else periodicCase(kk, seed, th, res); } else if (kk % 5 == 4) tsmCase(kk, seed, th, res); else accuracyCase(kk, seed, th, res); };
    out["c05"].push_back(s);
    num::Segment s2; s2.name = "c05-farbox-" + KEY;
    s2.count = [](bool th) { return th ? 8L : 2L; };
    s2.run = [](long kk, uint64_t seed, bool th, vh::Result& res) { farBoxCase(kk, seed, th, res); };
    out["c05"].push_back(s2);
}
