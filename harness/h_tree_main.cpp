#include "common.hpp"
#include <map>
namespace tr { struct Segment { std::string name; std::function<long(bool)> count; std::function<void(long, uint64_t, bool, vh::Result&)> run; }; }
#define DECL(f) void vh_tree_segments_f##f(std::map<std::string, std::vector<tr::Segment>>&);
DECL(1) DECL(2) DECL(3) DECL(4) DECL(5) DECL(6) DECL(7) DECL(8) DECL(9) DECL(10) DECL(11)
int main(int argc, char** argv) {
    std::map<std::string, std::vector<tr::Segment>> segs;
    vh_tree_segments_f1(segs); vh_tree_segments_f2(segs); vh_tree_segments_f3(segs); vh_tree_segments_f4(segs); vh_tree_segments_f5(segs);
    vh_tree_segments_f6(segs); vh_tree_segments_f7(segs); vh_tree_segments_f8(segs); vh_tree_segments_f9(segs); vh_tree_segments_f10(segs); vh_tree_segments_f11(segs);
    std::vector<vh::Mode> modes;
    for (auto& kv : segs) {
        auto list = kv.second;
        vh::Mode m; m.name = kv.first;
        m.count = [list](bool th) { long n = 0; for (auto& s : list) n += s.count(th); return n; };
        m.run = [list](long k, uint64_t seed, bool th, vh::Result& r) {
            for (auto& s : list) { const long c = s.count(th); if (k < c) { s.run(k, seed, th, r); r.desc = "[" + s.name + " #" + std::to_string(k) + "] " + r.desc; return; } k -= c; }
            r.skipped = true; r.skipReason = "out of range";
        };
        modes.push_back(m);
    }
    return vh::harness_main(argc, argv, modes);
}
