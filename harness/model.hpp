// Independent reference model of the grid hierarchy and of the FMM as a specification.
// Works on grid coordinate vectors only; shares no code and no header with tbfmm.
#ifndef VH_MODEL_HPP
#define VH_MODEL_HPP

#include <array>
#include <vector>
#include <map>
#include <set>
#include <cstdint>
#include <cstdlib>
#include <algorithm>

namespace vm {

template <int D> using Coord = std::array<long, D>;

inline long floordiv2(long v) { return (v >= 0) ? (v >> 1) : -((-v + 1) >> 1); }
inline long wrap(long v, long n) { long r = v % n; return r < 0 ? r + n : r; }

template <int D> Coord<D> parentOf(const Coord<D>& c) { Coord<D> p; for (int d = 0; d < D; ++d) p[d] = c[d] >> 1; return p; }
template <int D> Coord<D> add(const Coord<D>& a, const Coord<D>& b) { Coord<D> r; for (int d = 0; d < D; ++d) r[d] = a[d] + b[d]; return r; }
template <int D> Coord<D> sub(const Coord<D>& a, const Coord<D>& b) { Coord<D> r; for (int d = 0; d < D; ++d) r[d] = a[d] - b[d]; return r; }
template <int D> Coord<D> neg(const Coord<D>& a) { Coord<D> r; for (int d = 0; d < D; ++d) r[d] = -a[d]; return r; }
template <int D> long cheb(const Coord<D>& a) { long m = 0; for (int d = 0; d < D; ++d) m = std::max(m, std::labs(a[d])); return m; }
template <int D> Coord<D> wrapTo(const Coord<D>& a, long L) { Coord<D> r; for (int d = 0; d < D; ++d) r[d] = wrap(a[d], 1L << L); return r; }
template <int D> bool inRange(const Coord<D>& a, long L) { for (int d = 0; d < D; ++d) if (a[d] < 0 || a[d] >= (1L << L)) return false; return true; }
template <int D> bool lexPositive(const Coord<D>& a) { for (int d = 0; d < D; ++d) { if (a[d] > 0) return true; if (a[d] < 0) return false; } return false; }

// All offsets o in [-r,r]^D, in lexicographic order.
template <int D> std::vector<Coord<D>> box(long r) {
    std::vector<Coord<D>> out;
    Coord<D> o; o.fill(-r);
    while (true) {
        out.push_back(o);
        int d = D - 1;
        while (d >= 0) { if (++o[d] <= r) break; o[d] = -r; --d; }
        if (d < 0) break;
    }
    return out;
}

// Definition (independent of the library's loops): the interaction list of c at level L is the set of
// un-wrapped offsets o with |o|_inf >= 2 such that the parent of (c+o) is equal or adjacent to the
// parent of c; clipped at the box when not periodic. The source cell is (c+o) wrapped.
template <int D> std::vector<Coord<D>> interactionOffsets(const Coord<D>& c, long L, bool periodic) {
    std::vector<Coord<D>> out;
    if ((!periodic && L < 2) || (periodic && L < 1)) return out;
    static const std::vector<Coord<D>> cand = box<D>(3);
    for (const auto& o : cand) {
        if (cheb<D>(o) < 2) continue;
        bool ok = true;
        for (int d = 0; d < D && ok; ++d) {
            const long x = c[d] + o[d];
            const long pd = floordiv2(x) - (c[d] >> 1);
            if (pd < -1 || pd > 1) ok = false;
            if (!periodic && (x < 0 || x >= (1L << L))) ok = false;
        }
        if (ok) out.push_back(o);
    }
    return out;
}

template <int D> std::vector<Coord<D>> neighborOffsets(const Coord<D>& c, long L, bool periodic) {
    std::vector<Coord<D>> out;
    static const std::vector<Coord<D>> cand = box<D>(1);
    for (const auto& o : cand) {
        if (cheb<D>(o) == 0) continue;
        bool ok = true;
        for (int d = 0; d < D && ok; ++d) {
            const long x = c[d] + o[d];
            if (!periodic && (x < 0 || x >= (1L << L))) ok = false;
        }
        if (ok) out.push_back(o);
    }
    return out;
}

// Morton convention documented by the library: bit (D-1-d) of the child code is the low bit of coordinate d.
template <int D> long octantCode(const Coord<D>& child) { long c = 0; for (int d = 0; d < D; ++d) c |= (child[d] & 1L) << (D - 1 - d); return c; }
template <int D> long mortonIndex(const Coord<D>& c, long L) {
    long idx = 0;
    for (long b = 0; b < L; ++b) for (int d = 0; d < D; ++d) idx |= ((c[d] >> b) & 1L) << (b * D + (D - 1 - d));
    return idx;
}
template <int D> long code7(const Coord<D>& o) { long c = 0; for (int d = 0; d < D; ++d) c = c * 7 + (o[d] + 3); return c; }
template <int D> long code3(const Coord<D>& o) { long c = 0; for (int d = 0; d < D; ++d) c = c * 3 + (o[d] + 1); return c; }
template <int D> Coord<D> decode7(long c) { Coord<D> o; for (int d = D - 1; d >= 0; --d) { o[d] = (c % 7) - 3; c /= 7; } return o; }
template <int D> Coord<D> decode3(long c) { Coord<D> o; for (int d = D - 1; d >= 0; --d) { o[d] = (c % 3) - 1; c /= 3; } return o; }

// ---------------------------------------------------------------- occupied-cell closure
template <int D> struct Cells {
    long height = 0;
    // per level: set of existing cells
    std::vector<std::set<Coord<D>>> level;
    void build(long H, const std::set<Coord<D>>& leaves) {
        height = H;
        level.assign(H, {});
        if (H <= 0) return;
        level[H - 1] = leaves;
        for (long L = H - 2; L >= 0; --L) for (const auto& c : level[L + 1]) level[L].insert(parentOf<D>(c));
    }
    bool has(long L, const Coord<D>& c) const { return L >= 0 && L < height && level[L].count(c); }
};

// An elementary interaction in canonical form.
struct Elem {
    int op;           // 0 P2M 1 M2M 2 M2L 3 L2L 4 L2P 5 P2P 6 P2PInner 7 P2PTsm
    long level;
    std::vector<long> tgt, src;
    long code;
    bool operator<(const Elem& o) const {
        if (op != o.op) return op < o.op;
        if (level != o.level) return level < o.level;
        if (tgt != o.tgt) return tgt < o.tgt;
        if (src != o.src) return src < o.src;
        return code < o.code;
    }
    bool operator==(const Elem& o) const { return op == o.op && level == o.level && tgt == o.tgt && src == o.src && code == o.code; }
};
enum { OP_P2M = 0, OP_M2M, OP_M2L, OP_L2L, OP_L2P, OP_P2P, OP_P2PINNER, OP_P2PTSM, OP_NB };
inline const char* opName(int op) { static const char* n[] = {"P2M","M2M","M2L","L2L","L2P","P2P","P2PInner","P2PTsm"}; return (op >= 0 && op < OP_NB) ? n[op] : "?"; }

template <int D> std::vector<long> tov(const Coord<D>& c) { return std::vector<long>(c.begin(), c.end()); }

// Canonical P2P: the pair is stored with the lexicographically positive offset from tgt to src.
template <int D> Elem canonP2P(long leafLevel, Coord<D> tgt, Coord<D> src, Coord<D> off) {
    if (!lexPositive<D>(off)) { std::swap(tgt, src); off = neg<D>(off); }
    return Elem{OP_P2P, leafLevel, tov<D>(tgt), tov<D>(src), code3<D>(off)};
}

// The multiset of elementary interactions a single-tree FMM must perform (flags = which operators).
template <int D> std::vector<Elem> expectedElems(const Cells<D>& cs, bool periodic, long upper, unsigned opsMask = 0x7f) {
    std::vector<Elem> out;
    const long H = cs.height;
    if (H <= 0) return out;
    if (H > upper) {
        for (const auto& c : cs.level[H - 1]) {
            if (opsMask & (1u << OP_P2M)) out.push_back({OP_P2M, H - 1, tov<D>(c), {}, 0});
            if (opsMask & (1u << OP_L2P)) out.push_back({OP_L2P, H - 1, tov<D>(c), {}, 0});
        }
    }
    for (long L = H - 2; L >= upper; --L)
        for (const auto& c : cs.level[L + 1]) {
            if (opsMask & (1u << OP_M2M)) out.push_back({OP_M2M, L, tov<D>(parentOf<D>(c)), tov<D>(c), octantCode<D>(c)});
            if (opsMask & (1u << OP_L2L)) out.push_back({OP_L2L, L, tov<D>(parentOf<D>(c)), tov<D>(c), octantCode<D>(c)});
        }
    if (opsMask & (1u << OP_M2L))
        for (long L = upper; L <= H - 1; ++L)
            for (const auto& c : cs.level[L])
                for (const auto& o : interactionOffsets<D>(c, L, periodic)) {
                    Coord<D> s = add<D>(c, o);
                    if (periodic) s = wrapTo<D>(s, L);
                    if (cs.has(L, s)) out.push_back({OP_M2L, L, tov<D>(c), tov<D>(s), code7<D>(o)});
                }
    for (const auto& c : cs.level[H - 1]) {
        if (opsMask & (1u << OP_P2PINNER)) out.push_back({OP_P2PINNER, H - 1, tov<D>(c), {}, 0});
        if (opsMask & (1u << OP_P2P))
            for (const auto& o : neighborOffsets<D>(c, H - 1, periodic)) {
                if (!lexPositive<D>(o)) continue;
                Coord<D> s = add<D>(c, o);
                if (periodic) s = wrapTo<D>(s, H - 1);
                if (cs.has(H - 1, s)) out.push_back(canonP2P<D>(H - 1, c, s, o));
            }
    }
    std::sort(out.begin(), out.end());
    return out;
}

// Target/source variant: source cells carry multipoles, target cells carry locals.
template <int D> std::vector<Elem> expectedElemsTsm(const Cells<D>& src, const Cells<D>& tgt, bool periodic, long upper) {
    std::vector<Elem> out;
    const long H = src.height;
    if (H <= 0) return out;
    if (H > upper) {
        for (const auto& c : src.level[H - 1]) out.push_back({OP_P2M, H - 1, tov<D>(c), {}, 0});
        for (const auto& c : tgt.level[H - 1]) out.push_back({OP_L2P, H - 1, tov<D>(c), {}, 0});
    }
    for (long L = H - 2; L >= upper; --L) {
        for (const auto& c : src.level[L + 1]) out.push_back({OP_M2M, L, tov<D>(parentOf<D>(c)), tov<D>(c), octantCode<D>(c)});
        for (const auto& c : tgt.level[L + 1]) out.push_back({OP_L2L, L, tov<D>(parentOf<D>(c)), tov<D>(c), octantCode<D>(c)});
    }
    for (long L = upper; L <= H - 1; ++L)
        for (const auto& c : tgt.level[L])
            for (const auto& o : interactionOffsets<D>(c, L, periodic)) {
                Coord<D> s = add<D>(c, o);
                if (periodic) s = wrapTo<D>(s, L);
                if (src.has(L, s)) out.push_back({OP_M2L, L, tov<D>(c), tov<D>(s), code7<D>(o)});
            }
    for (const auto& c : tgt.level[H - 1]) {
        Coord<D> z; z.fill(0);
        if (src.has(H - 1, c)) out.push_back({OP_P2PTSM, H - 1, tov<D>(c), tov<D>(c), code3<D>(z)});
        for (const auto& o : neighborOffsets<D>(c, H - 1, periodic)) {
            Coord<D> s = add<D>(c, o);
            if (periodic) s = wrapTo<D>(s, H - 1);
            if (src.has(H - 1, s)) out.push_back({OP_P2PTSM, H - 1, tov<D>(c), tov<D>(s), code3<D>(o)});
        }
    }
    std::sort(out.begin(), out.end());
    return out;
}

// ---------------------------------------------------------------- the FMM as a specification (exactly-once sets)
// For every target leaf: which (source leaf, multiplicity) pairs reach it through the far field with upper
// working level `upper`, and which through the near field.  farCount[t][s] = number of times.
template <int D> struct PairSpec {
    // key: (target leaf, source leaf) -> count
    std::map<std::pair<Coord<D>, Coord<D>>, long> far, near;
};

template <int D> void descendantsLeaves(const Cells<D>& cs, long L, const Coord<D>& c, std::vector<Coord<D>>& out) {
    const long H = cs.height;
    const long sh = (H - 1) - L;
    for (const auto& leaf : cs.level[H - 1]) {
        bool in = true;
        for (int d = 0; d < D && in; ++d) if ((leaf[d] >> sh) != c[d]) in = false;
        if (in) out.push_back(leaf);
    }
}

template <int D> PairSpec<D> pairSpec(const Cells<D>& srcCells, const Cells<D>& tgtCells, bool periodic, long upper, bool tsm) {
    PairSpec<D> ps;
    const long H = tgtCells.height;
    if (H <= 0) return ps;
    for (const auto& t : tgtCells.level[H - 1]) {
        // near
        for (const auto& o : neighborOffsets<D>(t, H - 1, periodic)) {
            Coord<D> s = add<D>(t, o);
            if (periodic) s = wrapTo<D>(s, H - 1);
            if (srcCells.has(H - 1, s)) ps.near[{t, s}] += 1;
        }
        if (srcCells.has(H - 1, t)) ps.near[{t, t}] += 1; // own leaf (self excluded at particle level unless tsm)
        (void)tsm;
        // far: for every ancestor (including the leaf) at levels >= upper
        if (H > upper) {
            Coord<D> a = t;
            for (long L = H - 1; L >= upper; --L) {
                for (const auto& o : interactionOffsets<D>(a, L, periodic)) {
                    Coord<D> s = add<D>(a, o);
                    if (periodic) s = wrapTo<D>(s, L);
                    if (!srcCells.has(L, s)) continue;
                    std::vector<Coord<D>> leaves;
                    descendantsLeaves<D>(srcCells, L, s, leaves);
                    for (const auto& sl : leaves) ps.far[{t, sl}] += 1;
                }
                a = parentOf<D>(a);
            }
        }
    }
    return ps;
}

} // namespace vm
#endif
