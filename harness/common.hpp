// Shared harness infrastructure: deterministic RNG, case protocol, JSON-ish output.
// No tbfmm header is included here.
#ifndef VH_COMMON_HPP
#define VH_COMMON_HPP

#include <cstdint>
#include <cstdio>
#include <cstdlib>
#include <cstring>
#include <string>
#include <vector>
#include <map>
#include <set>
#include <array>
#include <sstream>
#include <functional>
#include <algorithm>
#include <unistd.h>
#include <csignal>

namespace vh {

//---------------------------------------------------------------- RNG (splitmix64)
struct Rng {
    uint64_t s;
    explicit Rng(uint64_t seed = 1) : s(seed) {}
    uint64_t next() {
        uint64_t z = (s += 0x9E3779B97F4A7C15ULL);
        z = (z ^ (z >> 30)) * 0xBF58476D1CE4E5B9ULL;
        z = (z ^ (z >> 27)) * 0x94D049BB133111EBULL;
        return z ^ (z >> 31);
    }
    // uniform in [0,n)
    uint64_t below(uint64_t n) { return n ? next() % n : 0; }
    long range(long lo, long hi) { return lo + long(below(uint64_t(hi - lo + 1))); } // inclusive
    double unit() { return double(next() >> 11) * (1.0 / 9007199254740992.0); }     // [0,1)
    bool coin(double p = 0.5) { return unit() < p; }
    template <class T> const T& pick(const std::vector<T>& v) { return v[below(v.size())]; }
};

inline uint64_t mix(uint64_t a, uint64_t b) {
    Rng r(a * 0x9E3779B97F4A7C15ULL ^ (b + 0x632BE59BD9B4E019ULL));
    r.next();
    return r.next();
}

inline uint64_t fnv(const void* p, size_t n, uint64_t h = 1469598103934665603ULL) {
    const unsigned char* c = static_cast<const unsigned char*>(p);
    for (size_t i = 0; i < n; ++i) { h ^= c[i]; h *= 1099511628211ULL; }
    return h;
}

//---------------------------------------------------------------- tiny JSON writer
inline std::string jesc(const std::string& s) {
    std::string o;
    for (char c : s) {
        if (c == '"' || c == '\\') { o += '\\'; o += c; }
        else if (c == '\n') o += "\\n";
        else if ((unsigned char)c < 0x20) o += ' ';
        else o += c;
    }
    return o;
}

struct Json {
    std::ostringstream os;
    bool first = true;
    Json() { os << "{"; }
    void key(const std::string& k) { if (!first) os << ","; first = false; os << "\"" << jesc(k) << "\":"; }
    Json& s(const std::string& k, const std::string& v) { key(k); os << "\"" << jesc(v) << "\""; return *this; }
    Json& i(const std::string& k, long long v) { key(k); os << v; return *this; }
    Json& u(const std::string& k, unsigned long long v) { key(k); os << v; return *this; }
    Json& d(const std::string& k, double v) { key(k); char b[64]; snprintf(b, sizeof b, "%.6g", v); if (strstr(b,"nan")||strstr(b,"inf")) os << "\"" << b << "\""; else os << b; return *this; }
    Json& b(const std::string& k, bool v) { key(k); os << (v ? "true" : "false"); return *this; }
    Json& raw(const std::string& k, const std::string& v) { key(k); os << v; return *this; }
    std::string str() const { return os.str() + "}"; }
};

template <class V> inline std::string jarr(const V& v) {
    std::ostringstream os; os << "[";
    bool f = true;
    for (const auto& x : v) { if (!f) os << ","; f = false; os << x; }
    os << "]"; return os.str();
}

//---------------------------------------------------------------- per-case result
struct Result {
    std::string sig;          // signature used for distinctness
    bool nontrivial = false;
    bool skipped = false;
    std::string skipReason;
    // violations: key -> detail (first witness)
    std::vector<std::pair<std::string, std::string>> violations;
    std::map<std::string, long long> events; // monitor event counters
    std::string desc;         // human-readable description of the case (sample)

    void fail(const std::string& key, const std::string& detail) {
        for (auto& v : violations) if (v.first == key) return;
        violations.emplace_back(key, detail);
    }
    void ev(const std::string& k, long long n = 1) { events[k] += n; }
};

// Announce the case description before the work starts, so that a process death can be attributed to a described input.
inline void announce(const std::string& d) { printf("DESC %s\n", jesc(d).c_str()); fflush(stdout); }

// A harness defines modes; each mode has a count(tier) and run(k, seed, tier, Result&).
struct Mode {
    std::string name;
    std::function<long(bool thorough)> count;
    std::function<void(long k, uint64_t seed, bool thorough, Result&)> run;
};

extern "C" int __lsan_do_recoverable_leak_check() __attribute__((weak));

inline void on_case_alarm(int) { static const char m[] = "\nCASE-TIMEOUT\n"; ssize_t w = write(1, m, sizeof m - 1); (void)w; _exit(93); }

inline int harness_main(int argc, char** argv, const std::vector<Mode>& modes) {
    // usage: h <mode> count <tier> | h <mode> run <seed> <first> <n> <tier>
    if (argc < 4) { fprintf(stderr, "usage: %s <mode> count <tier> | <mode> run <seed> <first> <n> <tier>\n", argv[0]); return 2; }
    const std::string mname = argv[1];
    const Mode* m = nullptr;
    for (auto& x : modes) if (x.name == mname) m = &x;
    if (!m) { fprintf(stderr, "unknown mode %s\n", mname.c_str()); return 2; }
    const std::string cmd = argv[2];
    if (cmd == "count") {
        const bool th = std::string(argv[3]) == "thorough";
        printf("COUNT %ld\n", m->count(th));
        return 0;
    }
    if (cmd != "run" || argc < 7) return 2;
    const uint64_t seed = strtoull(argv[3], nullptr, 10);
    const long first = atol(argv[4]);
    const long n = atol(argv[5]);
    const bool th = std::string(argv[6]) == "thorough";
    setvbuf(stdout, nullptr, _IOLBF, 0);
    // per-case watchdog (generous): a case that does not finish is re-run once by the driver before it is judged
    const unsigned caseTimeout = getenv("VH_CASE_TIMEOUT") ? unsigned(atoi(getenv("VH_CASE_TIMEOUT"))) : (th ? 1200u : 240u);
    signal(SIGALRM, on_case_alarm);
    for (long k = first; k < first + n; ++k) {
        printf("BEGIN %ld\n", k);
        fflush(stdout);
        alarm(caseTimeout);
        Result r;
        m->run(k, seed, th, r);
        if (&__lsan_do_recoverable_leak_check && !getenv("VH_NO_LEAK_CHECK") && __lsan_do_recoverable_leak_check())
            r.fail("lsan:leak", "LeakSanitizer reported a leak after this case (see stderr)");
        alarm(0);
        Json j;
        j.i("k", k).s("sig", r.sig).b("nontrivial", r.nontrivial);
        if (r.skipped) j.s("verdict", "skip").s("reason", r.skipReason);
        else if (r.violations.empty()) j.s("verdict", "ok");
        else {
            j.s("verdict", "violation");
            std::ostringstream vs; vs << "[";
            for (size_t i = 0; i < r.violations.size(); ++i) {
                if (i) vs << ",";
                vs << "{\"key\":\"" << jesc(r.violations[i].first) << "\",\"detail\":\"" << jesc(r.violations[i].second) << "\"}";
            }
            vs << "]";
            j.raw("violations", vs.str());
        }
        {
            Json e;
            for (auto& kv : r.events) e.i(kv.first, kv.second);
            j.raw("events", e.str());
        }
        j.s("desc", r.desc);
        printf("CASE %s\n", j.str().c_str());
        fflush(stdout);
    }
    printf("DONE\n");
    fflush(stdout);
    return 0;
}

template <class T> inline std::string str(const T& v) { std::ostringstream os; os << v; return os.str(); }
template <class A> inline std::string astr(const A& a) {
    std::ostringstream os; os << "(";
    bool f = true; for (auto& x : a) { if (!f) os << ","; f = false; os << x; } os << ")"; return os.str();
}

} // namespace vh
#endif
