// Engine h_index (C11): the public index API of a space ordering against the coordinate model.
#include "common.hpp"
#include "model.hpp"
#include "tbfglobal.hpp"
#include "utils/tbfutils.hpp"
#include "spacial/tbfspacialconfiguration.hpp"
#include "spacial/tbfmortonspaceindex.hpp"
#include "spacial/tbfhilbertspaceindex.hpp"
#include <optional>
#include <cmath>

#ifndef VH_KIND
#error "VH_KIND: 0 Morton, 1 Hilbert"
#endif
#define VH_CAT3(a, b, c, d) a##b##_##c##_##d
#define VH_CAT(a, b, c, d) VH_CAT3(a, b, c, d)
#define VH_FN VH_CAT(vh_index_segments_k, VH_KIND, VH_DIM, VH_PER)

namespace ix { struct Segment { std::string name; std::function<long(bool)> count; std::function<void(long, uint64_t, bool, vh::Result&)> run; }; }
namespace {
using vh::Result;
using ix::Segment;
using vm::Coord;
constexpr int D = VH_DIM;
constexpr bool PER = (VH_PER != 0);
constexpr bool HILBERT = (VH_KIND == 1);
using Cfg = TbfSpacialConfiguration<double, D>;
#if VH_KIND == 0
using Space = TbfMortonSpaceIndex<D, Cfg, PER>;
#else
using Space = TbfHilbertSpaceIndex<D, Cfg, PER>;
#endif
const std::string KN = std::string(HILBERT ? "hilbert" : "morton") + (PER ? "-periodic" : "") + "-D" + vh::str(D);
const std::string HP = HILBERT ? "hilbert:" : "";   // Hilbert failures carry their own key prefix

// synthetic group: a sorted set of indices with the accessors the per-group builders use
struct Group {
    std::vector<long> idx;
    long getNbCells() const { return long(idx.size()); }
    long getNbLeaves() const { return long(idx.size()); }
    long getCellSpacialIndex(long i) const { return idx[size_t(i)]; }
    long getLeafSpacialIndex(long i) const { return idx[size_t(i)]; }
    long getStartingSpacialIndex() const { return idx.front(); }
    long getEndingSpacialIndex() const { return idx.back(); }
    std::optional<long> getElementFromSpacialIndex(long q) const { auto it = std::lower_bound(idx.begin(), idx.end(), q); if (it == idx.end() || *it != q) return std::nullopt; return long(it - idx.begin()); }
};

Coord<D> toC(const std::array<long, D>& a) { Coord<D> c; for (int d = 0; d < D; ++d) c[d] = a[d]; return c; }
Coord<D> coordOfLinear(long lin, long L) { Coord<D> c; const long n = 1L << L; for (int d = D - 1; d >= 0; --d) { c[d] = lin % n; lin /= n; } return c; }

Cfg makeCfg(long H) { std::array<double, D> w, c; w.fill(1.0); c.fill(0.5); return Cfg(H, w, c); }

// all per-cell checks for the cell with coordinate c at level L (tree height H)
void checkCell(const Space& sp, long H, long L, const Coord<D>& c, Result& res) {
    std::array<long, D> ca; for (int d = 0; d < D; ++d) ca[d] = c[d];
    const long i = sp.getIndexFromBoxPos(ca);
    if (i < 0 || i >= sp.getUpperBound(L)) res.fail(HP + "c11:index-out-of-range", KN + " H=" + vh::str(H) + " L=" + vh::str(L) + " coord " + vh::astr(c) + " index " + vh::str(i) + " upper bound " + vh::str(sp.getUpperBound(L)));
    const auto back = toC(sp.getBoxPosFromIndex(i));
    if (back != c) res.fail(HP + "c11:index-coord-roundtrip", KN + " L=" + vh::str(L) + " coord " + vh::astr(c) + " -> " + vh::str(i) + " -> " + vh::astr(back));
    if (!HILBERT && i != vm::mortonIndex<D>(c, L)) res.fail("c11:morton-encode", KN + " coord " + vh::astr(c) + " got " + vh::str(i) + " model " + vh::str(vm::mortonIndex<D>(c, L)));
    res.ev("cells-checked");
    if (L >= 1) {
        const long p = sp.getParentIndex(i);
        const auto pc = toC(sp.getBoxPosFromIndex(p));
        if (pc != vm::parentOf<D>(c)) res.fail(HP + "c11:parent-contains-child", KN + " H=" + vh::str(H) + " L=" + vh::str(L) + " cell " + vh::astr(c) + " parent index decodes to " + vh::astr(pc) + " expected " + vh::astr(vm::parentOf<D>(c)));
        const long code = sp.childPositionFromParent(i);
        if (code < 0 || code >= (1L << D)) res.fail(HP + "c11:child-code-range", KN + " code " + vh::str(code));
        else {
            if (code != vm::octantCode<D>(c)) res.fail(HP + "c11:child-code-is-octant", KN + " H=" + vh::str(H) + " L=" + vh::str(L) + " cell " + vh::astr(c) + " code " + vh::str(code) + " octant " + vh::str(vm::octantCode<D>(c)));
            if (sp.getChildIndexFromParent(p, code) != i) res.fail(HP + "c11:child-from-parent-roundtrip", KN + " cell " + vh::astr(c));
        }
    }
    // interaction list: exact multiset of (wrapped) cells
    {
        std::vector<long> want;
        for (const auto& o : vm::interactionOffsets<D>(c, L, PER)) {
            Coord<D> s = vm::add<D>(c, o); if (PER) s = vm::wrapTo<D>(s, L);
            std::array<long, D> sa; for (int d = 0; d < D; ++d) sa[d] = s[d];
            want.push_back(sp.getIndexFromBoxPos(sa));
        }
        auto got = sp.getInteractionListForIndex(i, L);
        std::sort(want.begin(), want.end()); std::sort(got.begin(), got.end());
        if (got != want) {
            std::string how = "got " + vh::str(got.size()) + " expected " + vh::str(want.size());
            for (long g : got) if (!std::binary_search(want.begin(), want.end(), g)) { how += "; extra cell " + vh::astr(sp.getBoxPosFromIndex(g)); break; }
            for (long w : want) if (!std::binary_search(got.begin(), got.end(), w)) { how += "; missing cell " + vh::astr(sp.getBoxPosFromIndex(w)); break; }
            res.fail(HP + "c11:interaction-list", KN + " L=" + vh::str(L) + " cell " + vh::astr(c) + " " + how);
        }
        res.ev("interaction-entries-checked", (long long)want.size());
    }
    // neighbour list, with and without the upper-half filter
    for (int upper = 0; upper < 2; ++upper) {
        std::vector<long> want;
        for (const auto& o : vm::neighborOffsets<D>(c, L, PER)) {
            if (upper && !vm::lexPositive<D>(o)) continue;
            Coord<D> s = vm::add<D>(c, o); if (PER) s = vm::wrapTo<D>(s, L);
            std::array<long, D> sa; for (int d = 0; d < D; ++d) sa[d] = s[d];
            want.push_back(sp.getIndexFromBoxPos(sa));
        }
        auto got = sp.getNeighborListForIndex(i, L, upper != 0);
        std::sort(want.begin(), want.end()); std::sort(got.begin(), got.end());
        if (got != want) res.fail(HP + (upper ? "c11:neighbor-list-upper-half" : "c11:neighbor-list"), KN + " L=" + vh::str(L) + " cell " + vh::astr(c) + " got " + vh::str(got.size()) + " expected " + vh::str(want.size()));
        res.ev("neighbor-entries-checked", (long long)want.size());
    }
}

// per-group builders on a synthetic group
void checkGroup(const Space& sp, long L, const Group& g, bool testSelf, bool upperExcl, Result& res) {
    // interaction lists
    {
        const auto lists = sp.getInteractionListForBlock(g, L, testSelf);
        std::map<long, std::vector<std::pair<long, long>>> byTarget; // target index -> (src index, code)
        auto take = [&](const auto& v, bool internal) {
            for (const auto& it : v) {
                const bool inRange = g.getStartingSpacialIndex() <= it.indexSrc && it.indexSrc <= g.getEndingSpacialIndex();
                if (internal != inRange) res.fail(HP + "c11:group-internal-external-split", KN + " src " + vh::str(it.indexSrc) + (internal ? " listed internal but outside the group's range" : " listed external but inside the group's range"));
                if (internal && testSelf && !g.getElementFromSpacialIndex(it.indexSrc)) res.fail(HP + "c11:group-internal-absent-source", KN + " src " + vh::str(it.indexSrc));
                if (it.globalTargetPos < 0 || it.globalTargetPos >= g.getNbCells() || g.idx[size_t(it.globalTargetPos)] != it.indexTarget) res.fail(HP + "c11:group-target-position", KN + " target " + vh::str(it.indexTarget));
                const auto tc = toC(sp.getBoxPosFromIndex(it.indexTarget)), sc = toC(sp.getBoxPosFromIndex(it.indexSrc));
                const auto o = vm::decode7<D>(it.arrayIndexSrc);
                bool ok = true; for (int d = 0; d < D; ++d) { const long diff = sc[d] - tc[d]; if (PER ? vm::wrap(diff - o[d], 1L << L) != 0 : diff != o[d]) ok = false; }
                if (!ok) res.fail(HP + "c11:group-interaction-code", KN + " code decodes to " + vh::astr(o) + " src " + vh::astr(sc) + " tgt " + vh::astr(tc));
                byTarget[it.indexTarget].emplace_back(it.indexSrc, it.arrayIndexSrc);
            }
        };
        take(lists.first, true); take(lists.second, false);
        for (long t : g.idx) {
            const auto tc = toC(sp.getBoxPosFromIndex(t));
            std::vector<std::pair<long, long>> want;
            for (const auto& o : vm::interactionOffsets<D>(tc, L, PER)) {
                Coord<D> s = vm::add<D>(tc, o); if (PER) s = vm::wrapTo<D>(s, L);
                std::array<long, D> sa; for (int d = 0; d < D; ++d) sa[d] = s[d];
                const long si = sp.getIndexFromBoxPos(sa);
                const bool inRange = g.getStartingSpacialIndex() <= si && si <= g.getEndingSpacialIndex();
                if (inRange && testSelf && !g.getElementFromSpacialIndex(si)) continue; // absent in-range sources are dropped
                want.emplace_back(si, vm::code7<D>(o));
            }
            auto got = byTarget[t];
            std::sort(want.begin(), want.end()); std::sort(got.begin(), got.end());
            if (got != want) res.fail(HP + "c11:group-interaction-union", KN + " L=" + vh::str(L) + " target " + vh::astr(tc) + " got " + vh::str(got.size()) + " entries expected " + vh::str(want.size()));
            res.ev("group-interaction-entries-checked", (long long)want.size());
        }
    }
    // neighbour lists
    {
        const auto lists = sp.getNeighborListForBlock(g, L, upperExcl, testSelf);
        std::map<long, std::vector<std::pair<long, long>>> byTarget;
        auto take = [&](const auto& v, bool internal) {
            for (const auto& it : v) {
                const bool inRange = g.getStartingSpacialIndex() <= it.indexSrc && it.indexSrc <= g.getEndingSpacialIndex();
                if (internal != inRange) res.fail(HP + "c11:group-neighbor-split", KN + " src " + vh::str(it.indexSrc));
                if (internal && testSelf && !g.getElementFromSpacialIndex(it.indexSrc)) res.fail(HP + "c11:group-neighbor-absent-source", KN + " src " + vh::str(it.indexSrc));
                const auto tc = toC(sp.getBoxPosFromIndex(it.indexTarget)), sc = toC(sp.getBoxPosFromIndex(it.indexSrc));
                const auto o = vm::decode3<D>(it.arrayIndexSrc);
                bool ok = true; for (int d = 0; d < D; ++d) { const long diff = sc[d] - tc[d]; if (PER ? vm::wrap(diff - o[d], 1L << L) != 0 : diff != o[d]) ok = false; }
                if (!ok) res.fail(HP + "c11:group-neighbor-code", KN + " code decodes to " + vh::astr(o) + " src " + vh::astr(sc) + " tgt " + vh::astr(tc));
                byTarget[it.indexTarget].emplace_back(it.indexSrc, it.arrayIndexSrc);
            }
        };
        take(lists.first, true); take(lists.second, false);
        for (long t : g.idx) {
            const auto tc = toC(sp.getBoxPosFromIndex(t));
            std::vector<std::pair<long, long>> want;
            for (const auto& o : vm::neighborOffsets<D>(tc, L, PER)) {
                if (upperExcl && !vm::lexPositive<D>(o)) continue;
                Coord<D> s = vm::add<D>(tc, o); if (PER) s = vm::wrapTo<D>(s, L);
                std::array<long, D> sa; for (int d = 0; d < D; ++d) sa[d] = s[d];
                const long si = sp.getIndexFromBoxPos(sa);
                const bool inRange = g.getStartingSpacialIndex() <= si && si <= g.getEndingSpacialIndex();
                if (inRange && testSelf && !g.getElementFromSpacialIndex(si)) continue;
                want.emplace_back(si, vm::code3<D>(o));
            }
            auto got = byTarget[t];
            std::sort(want.begin(), want.end()); std::sort(got.begin(), got.end());
            if (got != want) res.fail(HP + "c11:group-neighbor-union", KN + " L=" + vh::str(L) + " target " + vh::astr(tc) + " upperExclusion=" + vh::str(upperExcl) + " got " + vh::str(got.size()) + " expected " + vh::str(want.size()));
            res.ev("group-neighbor-entries-checked", (long long)want.size());
        }
        // self list
        const auto self = sp.getSelfListForBlock(g);
        if (long(self.size()) != g.getNbLeaves()) res.fail(HP + "c11:self-list-size", KN);
        for (size_t k = 0; k < self.size(); ++k) { Coord<D> z; z.fill(0); if (self[k].indexSrc != g.idx[k] || self[k].indexTarget != g.idx[k] || self[k].globalTargetPos != long(k) || self[k].arrayIndexSrc != vm::code3<D>(z)) { res.fail(HP + "c11:self-list-entry", KN); break; } }
    }
}

const long CHUNK = 2048;
long exhaustiveMaxLevel(bool th) { return D == 1 ? (th ? 12 : 10) : D == 2 ? (th ? 8 : 6) : D == 3 ? (th ? 6 : 4) : (th ? 4 : 3); }
long maxLevelFits() { return std::min<long>(30, 62 / D); }

std::vector<std::pair<long, long>> chunkTable(bool th) { // (level, chunk)
    std::vector<std::pair<long, long>> t;
    for (long L = 0; L <= exhaustiveMaxLevel(th); ++L) { long cells = 1; for (int d = 0; d < D; ++d) cells *= (1L << L); for (long c = 0; c * CHUNK < cells; ++c) t.emplace_back(L, c); }
    return t;
}

} // namespace

void VH_FN(std::vector<ix::Segment>& out) {
    // (1) exhaustive: every cell of every level up to the bound; tree height = level+1 and level+2 (Hilbert depends on the height)
    {
        Segment s; s.name = "c11-exhaustive-" + KN;
        s.count = [](bool th) { return long(chunkTable(th).size()); };
        s.run = [](long kk, uint64_t, bool th, Result& res) {
            const auto tab = chunkTable(th); const long L = tab[size_t(kk)].first, chunk = tab[size_t(kk)].second;
            long cells = 1; for (int d = 0; d < D; ++d) cells *= (1L << L);
            const long H = L + 1 + (kk % 2);
            const Cfg cfg = makeCfg(H); const Space sp(cfg);
            res.desc = KN + " exhaustive level " + vh::str(L) + " (tree height " + vh::str(H) + ") cells " + vh::str(chunk * CHUNK) + ".." + vh::str(std::min(cells, (chunk + 1) * CHUNK) - 1);
            std::set<long> seen;
            for (long lin = chunk * CHUNK; lin < std::min(cells, (chunk + 1) * CHUNK); ++lin) {
                const auto c = coordOfLinear(lin, L);
                checkCell(sp, H, L, c, res);
                std::array<long, D> ca; for (int d = 0; d < D; ++d) ca[d] = c[d];
                if (!seen.insert(sp.getIndexFromBoxPos(ca)).second) res.fail(HP + "c11:index-not-injective", KN + " L=" + vh::str(L));
            }
            res.sig = KN + ",L" + vh::str(L) + ",chunk" + vh::str(chunk); res.nontrivial = L >= 1;
        };
        out.push_back(s);
    }
    // (2) random cells up to the largest level whose indices fit 63 bits
    {
        Segment s; s.name = "c11-random-" + KN;
        s.count = [](bool th) { return th ? 400L : 40L; };
        s.run = [](long kk, uint64_t seed, bool, Result& res) {
            vh::Rng r(vh::mix(seed ^ 0xC11, uint64_t(kk) * 16 + D * 2 + PER));
            const long L = r.range(std::min<long>(exhaustiveMaxLevel(false), maxLevelFits() - 1), maxLevelFits() - 1);
            const long H = std::min<long>(31, L + 1 + long(r.below(2)));
            const Cfg cfg = makeCfg(H); const Space sp(cfg);
            res.desc = KN + " 300 random cells at level " + vh::str(L) + " (tree height " + vh::str(H) + "), incl. box corners and edges";
            for (int q = 0; q < 300; ++q) {
                Coord<D> c; for (int d = 0; d < D; ++d) { const int k = int(r.below(6)); c[d] = k == 0 ? 0 : k == 1 ? (1L << L) - 1 : long(r.below(uint64_t(1L << L))); }
                checkCell(sp, H, L, c, res);
            }
            res.sig = KN + ",randL" + vh::str(L) + "," + vh::str(kk); res.nontrivial = true;
        };
        out.push_back(s);
    }
    // (2b) the largest level whose indices still fit 63 bits (announced as a context so that a death there is keyed by this input region)
    {
        Segment s; s.name = "c11-limit-" + KN;
        s.count = [](bool) { return 2L; };
        s.run = [](long kk, uint64_t seed, bool, Result& res) {
            vh::Rng r(vh::mix(seed ^ 0x11A, uint64_t(kk) * 16 + D * 2 + PER));
            const long L = maxLevelFits();
            const long H = std::min<long>(31, L + 1);
            const Cfg cfg = makeCfg(H); const Space sp(cfg);
            res.desc = KN + " 200 random cells at the largest level " + vh::str(L) + " whose indices fit 63 bits";
            printf("CTX %s-level%ld\n", KN.c_str(), L); fflush(stdout);
            for (int q = 0; q < 200; ++q) {
                Coord<D> c; for (int d = 0; d < D; ++d) { const int k = int(r.below(6)); c[d] = k == 0 ? 0 : k == 1 ? (1L << L) - 1 : long(r.below(uint64_t(1L << L))); }
                checkCell(sp, H, L, c, res);
            }
            res.sig = KN + ",limitL" + vh::str(L) + "," + vh::str(kk); res.nontrivial = true;
        };
        out.push_back(s);
    }
    // (3) per-group builders on synthetic groups
    {
        Segment s; s.name = "c11-groups-" + KN;
        s.count = [](bool th) { return th ? 1500L : 150L; };
        s.run = [](long kk, uint64_t seed, bool, Result& res) {
            vh::Rng r(vh::mix(seed ^ 0x611, uint64_t(kk) * 16 + D * 2 + PER));
            const long L = (kk % 10 == 0) ? 0 : r.range(0, std::max<long>(2, exhaustiveMaxLevel(false)));   // level 0 regularly: with the periodic ordering every image wraps onto the root cell
            // the builders take the level as an argument: the group's level is the leaf level of the index's configuration in
            // a third of the cases and one or two levels above it otherwise (the lists of a level must not depend on the height)
            const long H = L + 1 + long(r.below(3));
            const Cfg cfg = makeCfg(H); const Space sp(cfg);
            long cells = 1; for (int d = 0; d < D; ++d) cells *= (1L << L);
            Group g;
            const int style = int(r.below(4));
            const long target = 1 + long(r.below(uint64_t(std::min<long>(cells, 40))));
            std::set<long> chosen;
            if (style == 0) { const long start = long(r.below(uint64_t(cells))); for (long i = start; i < std::min(cells, start + target); ++i) chosen.insert(i); } // contiguous run
            else if (style == 1) { while (long(chosen.size()) < target) chosen.insert(long(r.below(uint64_t(cells)))); }                                           // sparse
            else if (style == 2) { chosen.insert(0); chosen.insert(cells - 1); while (long(chosen.size()) < std::min(target, cells)) chosen.insert(long(r.below(uint64_t(cells)))); } // spans everything
            else { const long start = long(r.below(uint64_t(cells))); for (long i = start; i < std::min(cells, start + 2 * target); i += 2) chosen.insert(i); }     // gaps inside the range
            g.idx.assign(chosen.begin(), chosen.end());
            const bool testSelf = r.coin(0.7), upper = r.coin(0.5);
            res.desc = KN + " synthetic group of " + vh::str(g.idx.size()) + " cells at level " + vh::str(L) + " (tree height " + vh::str(H) + ") style " + vh::str(style) + " testSelfInclusion=" + vh::str(testSelf) + " upperExclusion=" + vh::str(upper);
            checkGroup(sp, L, g, testSelf, upper, res);
            res.sig = KN + ",grp," + vh::str(vh::mix(seed, kk)); res.nontrivial = g.idx.size() >= 2 && L >= 2;
        };
        out.push_back(s);
    }
    // (4) code encode/decode over the whole code range; index from position
    {
        Segment s; s.name = "c11-codes-" + KN;
        s.count = [](bool) { return 3L; };
        s.run = [](long kk, uint64_t seed, bool, Result& res) {
            res.desc = KN + (kk == 0 ? " interaction-code encode/decode over the whole range" : kk == 1 ? " neighbour-code encode/decode over the whole range" : " getIndexFromPosition on random and face points");
            if (kk == 0) {
                long n = 1; for (int d = 0; d < D; ++d) n *= 7;
                for (long code = 0; code < n; ++code) {
                    const auto p = Space::getRelativePosFromInteractionIndex(code);
                    if (toC(p) != vm::decode7<D>(code)) res.fail(HP + "c11:interaction-code-decode", KN + " code " + vh::str(code));
                    if (Space::getInteractionIndexFromRelativePos(p) != code) res.fail(HP + "c11:interaction-code-roundtrip", KN + " code " + vh::str(code));
                    res.ev("codes-checked");
                }
            } else if (kk == 1) {
                long n = 1; for (int d = 0; d < D; ++d) n *= 3;
                for (long code = 0; code < n; ++code) {
                    const auto p = Space::getRelativePosFromNeighborIndex(code);
                    if (toC(p) != vm::decode3<D>(code)) res.fail(HP + "c11:neighbor-code-decode", KN + " code " + vh::str(code));
                    if (Space::getNeighborIndexFromRelativePos(p) != code) res.fail(HP + "c11:neighbor-code-roundtrip", KN + " code " + vh::str(code));
                    res.ev("codes-checked");
                }
                if (Space::getNbChildrenPerCell() != (1L << D)) res.fail(HP + "c11:nb-children", KN);
                long a = 1, b = 1; for (int d = 0; d < D; ++d) { a *= 6; b *= 3; }
                if (Space::getNbInteractionsPerCell() != a - b) res.fail(HP + "c11:nb-interactions", KN);
                if (Space::getNbNeighborsPerLeaf() != b - 1) res.fail(HP + "c11:nb-neighbors", KN);
            } else {
                vh::Rng r(vh::mix(seed, 0x905));
                for (int q = 0; q < 2000; ++q) {
                    const long H = r.range(1, D == 1 ? 12 : D == 2 ? 8 : D == 3 ? 6 : 5);
                    const Cfg cfg = makeCfg(H); const Space sp(cfg);
                    const long nl = 1L << (H - 1);
                    std::array<double, D> p; Coord<D> expect;
                    for (int d = 0; d < D; ++d) {
                        if (r.coin(0.4)) { const long u = r.range(0, nl); p[d] = double(u) / double(nl); expect[d] = std::min(u, nl - 1); } // exactly on a face: upper cell, except the box's upper face
                        else { const long u = long(r.below(uint64_t(nl))); const double f = 0.01 + 0.98 * r.unit(); p[d] = (double(u) + f) / double(nl); expect[d] = u; }
                    }
                    const long idx = sp.getIndexFromPosition(p);
                    if (toC(sp.getBoxPosFromIndex(idx)) != expect) res.fail(HP + "c11:index-from-position", KN + " H=" + vh::str(H) + " p=" + vh::astr(p) + " expected " + vh::astr(expect) + " got " + vh::astr(sp.getBoxPosFromIndex(idx)));
                    res.ev("positions-checked");
                }
            }
            res.sig = KN + ",codes" + vh::str(kk); res.nontrivial = true;
        };
        out.push_back(s);
    }
}
